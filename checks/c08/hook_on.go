//go:build verif

package main

import (
	"verif/mc"

	"github.com/creachadair/mds/cache"
)

func init() { mc.HooksEnabled = true }

type heapEntry struct {
	Key, Value int
	Clock      int64
	IndexOK    bool
}

// lruState reads the hidden state of the cache through the overlay-added hook.
func lruState(c *cache.Cache[int, int]) (heap []heapEntry, size int64, count int, ok bool) {
	h, idxLen, size, count, ok := cache.VerifLRUState(c)
	if !ok {
		return nil, size, count, false
	}
	for i, e := range h {
		heap = append(heap, heapEntry{Key: e.Key, Value: e.Value, Clock: e.LastAccess, IndexOK: e.Indexed && e.IndexPos == i && idxLen == len(h)})
	}
	return heap, size, count, true
}
