//go:build !verif

package main

import "github.com/creachadair/mds/cache"

type heapEntry struct {
	Key, Value int
	Clock      int64
	IndexOK    bool
}

func lruState(c *cache.Cache[int, int]) (heap []heapEntry, size int64, count int, ok bool) {
	return nil, 0, 0, false
}
