#!/bin/bash
# Runs every seeded change against the quick checks of the properties whose code it touches.
V=${VERIF_DIR:-/verif}; R=${VERIF_REPO_DIR:-/repo}  # an isolated copy: VERIF_DIR=<copy of /verif> VERIF_REPO_DIR=VERIF_REPO=<worktree of /repo>
cd $V
out=$V/seeded/MATRIX.txt
: > $out
for d in seeded/*/; do
  s=$(basename $d)
  [ -f $d/patch.diff ] || continue
  case $s in
    C01-*|C02-*|C03-*|C04-*) ids="C01 C02 C03 C04";;
    C05-*|C06-*) ids="C05 C06 C08";;
    C07-*|C17-*) ids="C07 C17";;
    C08-*) ids="C08 C09";;
    C09-*|own-C09-*) ids="C08 C09";;
    C10-*) ids="C10";;
    C11-*|C12-*) ids="C11 C12 C13 C14";;
    C13-*|C14-*) ids="C13 C14";;
    C15-*|C16-*) ids="C15 C16";;
    C18-*) ids="C18 C19";;
    C19-*) ids="C19";;
    C20-*) ids="C20";;
    *) ids="";;
  esac
  tools/seed.sh run $s $ids 2>&1 | tee -a $out
done
git -C $R status --short
