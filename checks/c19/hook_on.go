//go:build verif

package main

import (
	"math/rand/v2"

	"verif/mc"

	"github.com/creachadair/mds/distinct"
)

func init() { mc.HooksEnabled = true }

func newCounter(size int, src rand.Source) *distinct.Counter[int] {
	return distinct.VerifNew[int](size, src)
}
func getState(c *distinct.Counter[int]) ([]int, uint64)      { return distinct.VerifState(c) }
func setState(c *distinct.Counter[int], buf []int, p uint64) { distinct.VerifSet(c, buf, p) }

// setOrder fixes the order in which a halving pass visits the buffer (only
// effective when the driver's source transformation was applied).
func setOrder(name string) {
	distinct.VerifLess = func(a, b any) bool { return a.(int) < b.(int) }
	distinct.VerifOrder = func(n int) []int {
		perm := make([]int, n)
		for i := range perm {
			switch name {
			case "reverse":
				perm[i] = n - 1 - i
			case "rotate":
				perm[i] = (i + 1) % n
			case "evens-first":
				if 2*i < n {
					perm[i] = 2 * i
				} else {
					perm[i] = 2*(i-(n+1)/2) + 1
				}
			default:
				perm[i] = i
			}
		}
		return perm
	}
}
