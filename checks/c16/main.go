// C16: shell.Split/Scanner tokenize by POSIX quoting rules, independent of
// chunking. E4: every string over the tokenizer's byte classes against an
// independent reference tokenizer (with measured state/class coverage);
// E2: every fragmentation of the reader's byte stream, EOF-with-data, error
// injection at each position, Rest after every token.
package main

import (
	"errors"
	"fmt"
	"io"
	"strings"
	"sync"
	"sync/atomic"

	"verif/lib/shellh"
	"verif/mc"

	"github.com/creachadair/mds/shell"
)

const alphabet = "a \t\n\\'\"$\x80"

func allStrings(alpha string, maxLen int) []string {
	out := []string{""}
	lo := 0
	for l := 1; l <= maxLen; l++ {
		hi := len(out)
		for _, p := range out[lo:hi] {
			for i := 0; i < len(alpha); i++ {
				out = append(out, p+alpha[i:i+1])
			}
		}
		lo = hi
	}
	return out
}

func texts(ts []shellh.Tok) []string {
	out := make([]string, len(ts))
	for i, t := range ts {
		out[i] = t.Text
	}
	return out
}

func eqs(a, b []string) bool {
	if len(a) != len(b) {
		return false
	}
	for i := range a {
		if a[i] != b[i] {
			return false
		}
	}
	return true
}

// ---- Split vs reference ----

type scase struct {
	In mc.BStr `json:"in"`
}

func checkSplit(c scase) *mc.Failure {
	return mc.GuardT("split", c, func() *mc.Failure {
		in := string(c.In)
		want, wok, _ := shellh.Split(in)
		got, ok := shell.Split(in)
		if !eqs(got, texts(want)) || ok != wok {
			return mc.Failf(0, "Split(%q) = %q, %v; reference %q, %v", in, got, ok, texts(want), wok)
		}
		return nil
	})
}

// ---- Scanner under a fragmenting reader ----

// fragReader delivers data in the given fragment sizes. With eofWithData the
// last fragment is returned together with io.EOF. If failAt >= 0 the reader
// returns errInjected once failAt bytes have been delivered.
type fragReader struct {
	data        string
	cuts        []int // fragment boundaries (offsets), ascending, ending with len(data)
	pos, ci     int
	eofWithData bool
	failAt      int
}

var errInjected = errors.New("injected read error")

func (f *fragReader) Read(p []byte) (int, error) {
	if f.failAt >= 0 && f.pos >= f.failAt {
		return 0, errInjected
	}
	if f.pos >= len(f.data) {
		return 0, io.EOF
	}
	for f.ci < len(f.cuts) && f.cuts[f.ci] <= f.pos {
		f.ci++
	}
	end := len(f.data)
	if f.ci < len(f.cuts) {
		end = f.cuts[f.ci]
	}
	if f.failAt >= 0 && end > f.failAt {
		end = f.failAt
	}
	n := copy(p, f.data[f.pos:end])
	f.pos += n
	if f.eofWithData && f.pos == len(f.data) && (f.failAt < 0 || f.failAt >= len(f.data)) {
		return n, io.EOF
	}
	return n, nil
}

type fcase struct {
	In     mc.BStr `json:"in"`
	Mask   uint64  `json:"cut_mask"` // bit i set: a fragment ends after byte i
	EOFd   bool    `json:"eof_with_data"`
	FailAt int     `json:"fail_at"`    // -1 none
	RestAt int     `json:"rest_after"` // call Rest after this many tokens (-1 never)
	Mode   string  `json:"mode"`       // next | each | split
}

func (c fcase) reader() *fragReader {
	var cuts []int
	for i := 0; i < len(c.In); i++ {
		if c.Mask&(1<<uint(i)) != 0 {
			cuts = append(cuts, i+1)
		}
	}
	cuts = append(cuts, len(c.In))
	return &fragReader{data: string(c.In), cuts: cuts, eofWithData: c.EOFd, failAt: c.FailAt}
}

func checkFrag(c fcase) *mc.Failure {
	return mc.GuardT("scanner", c, func() *mc.Failure {
		in := string(c.In)
		effective := in
		if c.FailAt >= 0 && c.FailAt < len(in) {
			effective = in[:c.FailAt]
		}
		want, wok, _ := shellh.Split(effective)
		failing := c.FailAt >= 0 && c.FailAt <= len(in)
		if failing {
			// Only tokens whose terminating blank was read before the error are delivered.
			if len(want) > 0 && !want[len(want)-1].Terminated {
				want = want[:len(want)-1]
			}
		}
		sc := shell.NewScanner(c.reader())
		var got []string
		switch c.Mode {
		case "split":
			got = sc.Split()
		case "each":
			stopAfter := c.RestAt // reused as the early-stop point for Each
			sc.Each(func(tok string) bool {
				got = append(got, tok)
				return stopAfter < 0 || len(got) < stopAfter
			})
			if stopAfter >= 0 {
				// f returns false on token number max(stopAfter,1): nothing further is read.
				exp := texts(want)
				if m := max(stopAfter, 1); m < len(exp) {
					exp = exp[:m]
				}
				if !eqs(got, exp) {
					return mc.Failf(0, "Each stopped at %d: got %q, want %q (input %q)", stopAfter, got, exp, in)
				}
				return nil
			}
		default:
			k := 0
			for {
				if c.RestAt == k {
					rest := sc.Rest()
					b, err := io.ReadAll(rest)
					consumed := 0
					if k > 0 {
						consumed = want[k-1].End
					}
					wantRest := effective[min(consumed, len(effective)):]
					if failing {
						if err != errInjected || string(b) != wantRest {
							return mc.Failf(0, "Rest after %d tokens = %q, %v; want %q then the injected error (input %q, cuts %b)", k, b, err, wantRest, in, c.Mask)
						}
					} else if err != nil || string(b) != wantRest {
						return mc.Failf(0, "Rest after %d tokens = %q, %v; want exactly the unconsumed bytes %q (input %q, cuts %b)", k, b, err, wantRest, in, c.Mask)
					}
					for i := 0; i < 3; i++ {
						if sc.Next() {
							return mc.Failf(0, "Next reports a token after Rest (input %q)", in)
						}
					}
					if !eqs(got, texts(want)[:k]) {
						return mc.Failf(0, "tokens before Rest: got %q want %q (input %q)", got, texts(want)[:k], in)
					}
					return nil
				}
				if !sc.Next() {
					break
				}
				got = append(got, sc.Text())
				k++
				if k > len(in)+2 {
					return mc.Failf(0, "scanner yields more tokens than bytes (input %q)", in)
				}
			}
		}
		if !eqs(got, texts(want)) {
			return mc.Failf(0, "scanner(input %q, cuts %b, eof-with-data %v, fail at %d, mode %s) yields %q, reference %q", in, c.Mask, c.EOFd, c.FailAt, c.Mode, got, texts(want))
		}
		if failing {
			if sc.Err() != errInjected {
				return mc.Failf(0, "scanner(input %q, fail at %d): Err=%v, want the injected error", in, c.FailAt, sc.Err())
			}
		} else {
			if sc.Err() != io.EOF {
				return mc.Failf(0, "scanner(input %q): Err=%v after the end of input, want io.EOF", in, sc.Err())
			}
			if sc.Complete() != wok {
				return mc.Failf(0, "scanner(input %q, cuts %b): Complete=%v for the final token, reference %v", in, c.Mask, sc.Complete(), wok)
			}
		}
		for i := 0; i < 3; i++ {
			if sc.Next() {
				return mc.Failf(0, "scanner(input %q): Next reports a token after the end", in)
			}
		}
		return nil
	})
}

// ---- Reset: a scanner reused on a new reader behaves like a fresh one ----

type rcase struct {
	Old     mc.BStr `json:"old_input"`
	OldToks int     `json:"tokens_read_from_old"`
	In      mc.BStr `json:"in"`
	Mask    uint64  `json:"cut_mask"`
	RestAt  int     `json:"rest_after"`
	OldMask uint64  `json:"old_cut_mask"`
	OldFail int     `json:"old_fails_after,omitempty"` // > 0: the old reader fails (not EOF) after that many bytes
}

func checkReset(c rcase) *mc.Failure {
	return mc.GuardT("reset", c, func() *mc.Failure {
		old := fcase{In: c.Old, Mask: c.OldMask, FailAt: -1}
		if c.OldFail > 0 {
			old.FailAt = c.OldFail
		}
		sc := shell.NewScanner(old.reader())
		for i := 0; i < c.OldToks && sc.Next(); i++ {
		}
		nw := fcase{In: c.In, Mask: c.Mask, FailAt: -1}
		sc.Reset(nw.reader())
		in := string(c.In)
		want, wok, _ := shellh.Split(in)
		var got []string
		for k := 0; ; k++ {
			if k == c.RestAt {
				if c.OldMask != 0 {
					sc.Rest() // a result nobody reads consumes nothing: the next Rest still has it all
				}
				b, err := io.ReadAll(sc.Rest())
				consumed := 0
				if k > 0 {
					consumed = want[k-1].End
				}
				if err != nil || string(b) != in[consumed:] {
					return mc.Failf(0, "after Reset (old input %q, %d tokens read), Rest after %d tokens of %q (cuts %b) = %q, %v; want %q", string(c.Old), c.OldToks, k, in, c.Mask, b, err, in[consumed:])
				}
				if sc.Next() {
					return mc.Failf(0, "Next reports a token after Rest")
				}
				return nil
			}
			if !sc.Next() {
				break
			}
			got = append(got, sc.Text())
		}
		if !eqs(got, texts(want)) || sc.Complete() != wok || sc.Err() != io.EOF {
			return mc.Failf(0, "after Reset (old input %q, %d tokens read) the scanner yields %q complete=%v err=%v on %q; reference %q %v", string(c.Old), c.OldToks, got, sc.Complete(), sc.Err(), in, texts(want), wok)
		}
		return nil
	})
}

// ---- long inputs through a scanner reading fixed-size fragments ----

type lcase struct {
	In   mc.BStr `json:"in"`
	Frag int     `json:"fragment_size"` // 0: everything at once
}

type chunkReader struct {
	data string
	n    int
}

func (c *chunkReader) Read(p []byte) (int, error) {
	if len(c.data) == 0 {
		return 0, io.EOF
	}
	k := len(p)
	if c.n > 0 && c.n < k {
		k = c.n
	}
	k = copy(p[:k], c.data)
	c.data = c.data[k:]
	return k, nil
}

func checkLong(c lcase) *mc.Failure {
	return mc.GuardT("long", c, func() *mc.Failure {
		in := string(c.In)
		want, wok, _ := shellh.Split(in)
		sc := shell.NewScanner(&chunkReader{data: in, n: c.Frag})
		var got []string
		for sc.Next() {
			got = append(got, sc.Text())
			if len(got) > len(in)+2 {
				break
			}
		}
		if !eqs(got, texts(want)) {
			return mc.Failf(0, "scanner (reads of %d bytes) yields %d tokens, reference %d; first difference near token %d", c.Frag, len(got), len(want), firstDiff(got, texts(want)))
		}
		if sc.Err() != io.EOF || sc.Complete() != wok {
			return mc.Failf(0, "scanner (reads of %d bytes): Err=%v Complete=%v, want EOF and %v", c.Frag, sc.Err(), sc.Complete(), wok)
		}
		return nil
	})
}

func firstDiff(a, b []string) int {
	for i := 0; i < len(a) && i < len(b); i++ {
		if a[i] != b[i] {
			return i
		}
	}
	return min(len(a), len(b))
}

// ---- pool reuse: a call must not be influenced by the previous one ----

type pcase struct {
	First  mc.BStr `json:"first"`
	Second mc.BStr `json:"second"`
}

func checkPool(c pcase) *mc.Failure {
	return mc.GuardT("pool", c, func() *mc.Failure {
		for i := 0; i < 4; i++ { // several rounds so that the pooled scanner is likely reused
			first, _ := shell.Split(string(c.First))
			keep := append([]string(nil), first...)
			want, wok, _ := shellh.Split(string(c.Second))
			got, ok := shell.Split(string(c.Second))
			if !eqs(got, texts(want)) || ok != wok {
				return mc.Failf(0, "Split(%q) right after Split(%q) = %q, %v; reference %q, %v", c.Second, c.First, got, ok, texts(want), wok)
			}
			// the slice returned by the first call belongs to the caller
			if !eqs(first, keep) {
				return mc.Failf(0, "the result of Split(%q) was %q and reads %q after a later Split(%q): the two results share storage", c.First, keep, first, c.Second)
			}
		}
		return nil
	})
}

func main() {
	mc.Main("C16",
		mc.Harness{
			Name: "split",
			Explore: func(r *mc.Run) {
				// Seven representative bytes (one per class, two blanks) to the full
				// bound; two further "other" bytes ($ and a non-ASCII byte) to a lower one.
				var cover [shellh.NStates][shellh.NClasses]int64
				pairs := map[[4]int]bool{}
				var pmu sync.Mutex
				var incomplete, n int64
				one := func(b []byte) {
					s := string(b)
					if f := checkSplit(scase{mc.BStr(s)}); f != nil {
						r.Violation(mc.Case{Harness: "split", Trace: mc.J(scase{mc.BStr(s)}), Msg: f.Msg})
					}
					_, ok, st := shellh.Split(s)
					if !ok {
						atomic.AddInt64(&incomplete, 1)
					}
					var local [][4]int
					for k := range s {
						atomic.AddInt64(&cover[st[k]][shellh.ClassOf(s[k])], 1)
						if k > 0 && len(s) <= 6 {
							local = append(local, [4]int{st[k-1], shellh.ClassOf(s[k-1]), st[k], shellh.ClassOf(s[k])})
						}
					}
					if len(local) > 0 {
						pmu.Lock()
						for _, p := range local {
							pairs[p] = true
						}
						pmu.Unlock()
					}
				}
				// Seven representative bytes (one per class, two blanks) to the full
				// bound; two further "other" bytes ($ and a non-ASCII byte) to a lower one.
				n += mc.ForStrings(alphabet[:7], mc.Pick(r, 7, 9), r.Workers, one)
				n += mc.ForStrings(alphabet, mc.Pick(r, 5, 6), r.Workers, one)
				// Quotes and backslashes only (and one ordinary byte): the quoting idioms
				// that Quote emits ('\'' and runs of it) need 8 and more bytes.
				n += mc.ForStrings("'\\", mc.Pick(r, 14, 17), r.Workers, one)
				n += mc.ForStrings("'\\a", mc.Pick(r, 10, 11), r.Workers, one)
				n += mc.ForStrings("\"\\a", mc.Pick(r, 10, 11), r.Workers, one)
				n += mc.ForStrings("'\"\\", mc.Pick(r, 9, 10), r.Workers, one)
				n += mc.ForStrings("'\\ ", mc.Pick(r, 9, 10), r.Workers, one)
				// The class alphabet assumes that all bytes of a class behave alike;
				// a per-byte table can single one out. Every byte value, alone, in
				// pairs, and in each quoting and escaping context.
				var all256 []byte
				for b := 0; b < 256; b++ {
					all256 = append(all256, byte(b))
				}
				n += mc.ForStrings(string(all256), 2, r.Workers, one)
				for b := 0; b < 256; b++ {
					c := string([]byte{byte(b)})
					for _, t := range []string{"a" + c + "b", "a " + c + " b", c + "a", "a" + c, "'a" + c + "b'", "\"a" + c + "b\"", "\\" + c + "b", "a\\" + c, "\"\\" + c + "\"", "'" + c, "\"" + c, c + "'a'", c + c + c, "a" + c + "\n" + c + "b"} {
						one([]byte(t))
						n++
					}
				}
				covered := 0
				for s := 0; s < shellh.NStates; s++ {
					for c := 0; c < shellh.NClasses; c++ {
						if cover[s][c] > 0 {
							covered++
						}
					}
				}
				r.AddEval(n, n, n, incomplete)
				r.Count("state_class_entries_covered_of_42", int64(covered))
				r.Count("consecutive_transition_pairs_covered", int64(len(pairs)))
				r.Bound("alphabet", "a, space, tab, newline, backslash, single quote, double quote to the full bound; plus $ and 0x80 to the lower bound; quotes and backslash alone to length 14/17, with one more byte to 9-11; every byte value 0..255 alone, in all pairs and in 14 quoting/escaping contexts")
				r.Rule("Split on every string over the byte-class alphabet vs the reference tokenizer (fields and completeness); coverage of (state, class) entries and of consecutive transition pairs measured with a shadow automaton; non-trivial = incomplete inputs (open quote or dangling backslash)")
				r.Sample(scase{"a\\\n b \"c\\\"d\" 'e"})
				// Real shells on the complete inputs free of unquoted newlines and other metacharacters.
				var shInputs []string
				for _, s := range allStrings(alphabet[:7], mc.Pick(r, 5, 6)) {
					if _, ok, _ := shellh.Split(s); ok && !hasUnquotedNewline(s) {
						shInputs = append(shInputs, s)
					}
				}
				for name, argv := range shellh.Shells() {
					res, err := shellh.SplitWords(argv, shInputs)
					if err != nil {
						r.Extra("shell_"+name+"_error", err.Error())
						continue
					}
					dis := 0
					for i, in := range shInputs {
						got, _ := shell.Split(in)
						if !eqs(got, res[i]) {
							dis++
							r.Violation(mc.Case{Harness: "split-shell", Trace: mc.J(scase{mc.BStr(in)}), Msg: fmt.Sprintf("%s splits %q into %q, Split gives %q", name, in, res[i], got)})
						}
					}
					r.Count("shell_"+name+"_inputs", int64(len(shInputs)))
					r.Count("shell_"+name+"_disagreements", int64(dis))
				}
			},
			Replay: func(c mc.Case) *mc.Failure {
				var s scase
				if err := mc.Unmarshal(c.Trace, &s); err != nil {
					return mc.Failf(-1, "bad trace: %v", err)
				}
				return checkSplit(s)
			},
		},
		mc.Harness{
			Name:    "split-shell",
			Explore: func(r *mc.Run) {},
			Replay: func(c mc.Case) *mc.Failure {
				var s scase
				if err := mc.Unmarshal(c.Trace, &s); err != nil {
					return mc.Failf(-1, "bad trace: %v", err)
				}
				for name, argv := range shellh.Shells() {
					res, err := shellh.SplitWords(argv, []string{string(s.In)})
					if err != nil {
						continue
					}
					if got, _ := shell.Split(string(s.In)); !eqs(got, res[0]) {
						return mc.Failf(0, "%s splits %q into %q, Split gives %q", name, string(s.In), res[0], got)
					}
				}
				return nil
			},
		},
		mc.Harness{
			Name: "scanner",
			Explore: func(r *mc.Run) {
				strs := allStrings(alphabet[:7], mc.Pick(r, 5, 6))
				// plus selected longer strings that visit every state
				strs = append(strs, "a\\ b 'c d' \"e\\\"f\"", "\"a\\\nb\" c\\\nd ", " 'x'\\''y' \"\\a\"", "a\\\n b", "\"a\\\"b\" c d")
				var evals, multi int64
				mc.ParallelFor(len(strs), r.Workers, func(i int) {
					s := strs[i]
					n := len(s)
					if n > 12 {
						n = 12 // cut masks over the first 12 bytes of the long strings
					}
					masks := uint64(1) << uint(max(n-1, 0))
					var cnt, mul int64
					for m := uint64(0); m < masks; m++ {
						for _, eofd := range []bool{false, true} {
							c := fcase{In: mc.BStr(s), Mask: m, EOFd: eofd, FailAt: -1, RestAt: -1, Mode: "next"}
							if f := checkFrag(c); f != nil {
								r.Violation(mc.Case{Harness: "scanner", Trace: mc.J(c), Msg: f.Msg})
							}
							cnt++
						}
						if m != 0 {
							mul++
						}
						// Rest after every token index, Each with every stop point, Split
						toks, _, _ := shellh.Split(s)
						if len(s) <= 5 || m == 0 || m == masks-1 {
							for k := 0; k <= len(toks); k++ {
								c := fcase{In: mc.BStr(s), Mask: m, FailAt: -1, RestAt: k, Mode: "next"}
								if f := checkFrag(c); f != nil {
									r.Violation(mc.Case{Harness: "scanner", Trace: mc.J(c), Msg: f.Msg})
								}
								c = fcase{In: mc.BStr(s), Mask: m, FailAt: -1, RestAt: k, Mode: "each"}
								if f := checkFrag(c); f != nil {
									r.Violation(mc.Case{Harness: "scanner", Trace: mc.J(c), Msg: f.Msg})
								}
								cnt += 2
							}
							c := fcase{In: mc.BStr(s), Mask: m, FailAt: -1, RestAt: -1, Mode: "each"}
							if f := checkFrag(c); f != nil {
								r.Violation(mc.Case{Harness: "scanner", Trace: mc.J(c), Msg: f.Msg})
							}
							c = fcase{In: mc.BStr(s), Mask: m, FailAt: -1, RestAt: -1, Mode: "split"}
							if f := checkFrag(c); f != nil {
								r.Violation(mc.Case{Harness: "scanner", Trace: mc.J(c), Msg: f.Msg})
							}
							cnt++
						}
						// a non-EOF error injected at every position
						if len(s) <= 5 || m == 0 || m == masks-1 {
							for p := 0; p <= len(s); p++ {
								c := fcase{In: mc.BStr(s), Mask: m, FailAt: p, RestAt: -1, Mode: "next"}
								if f := checkFrag(c); f != nil {
									r.Violation(mc.Case{Harness: "scanner", Trace: mc.J(c), Msg: f.Msg})
								}
								cnt++
							}
						}
					}
					atomic.AddInt64(&evals, cnt)
					atomic.AddInt64(&multi, mul)
				})
				r.AddEval(int64(len(strs)), evals, evals, multi)
				r.Rule("Scanner over every fragmentation (all 2^(len-1) cut masks) of every string to the bound and of selected longer strings, with and without data+EOF on the last read; Rest after every token count; Each stopped at every point; Scanner.Split; a non-EOF error injected at every byte position; non-trivial = executions with at least one cut")
				r.Sample(fcase{In: "\"a\\\"b\" c", Mask: 0b100, FailAt: -1, RestAt: 1, Mode: "next"})
			},
			Replay: func(c mc.Case) *mc.Failure {
				var f fcase
				if err := mc.Unmarshal(c.Trace, &f); err != nil {
					return mc.Failf(-1, "bad trace: %v", err)
				}
				return checkFrag(f)
			},
		},
		mc.Harness{
			Name: "reset",
			Explore: func(r *mc.Run) {
				olds := []struct {
					s string
					n int
					fail int
				}{{"", 0, 0}, {"old1 old2 old3", 1, 0}, {"'open quote", 1, 0}, {"x\\", 1, 0}, {"a b", 5, 0},
					// the old reader failed with an error other than EOF inside a word, a quote, after a backslash
					{"x ab", 5, 4}, {"x 'ab", 5, 5}, {"x \"ab", 5, 5}, {"x\\", 5, 2}, {"x \"a\\", 5, 5}}
				strs := allStrings(alphabet[:7], mc.Pick(r, 4, 5))
				var evals int64
				mc.ParallelFor(len(strs), r.Workers, func(i int) {
					s := strs[i]
					toks, _, _ := shellh.Split(s)
					masks := uint64(1) << uint(max(len(s)-1, 0))
					var n int64
					for _, o := range olds {
						for m := uint64(0); m < masks; m++ {
							for k := -1; k <= len(toks); k++ {
								for _, om := range []uint64{0, ^uint64(0)} {
									c := rcase{Old: mc.BStr(o.s), OldToks: o.n, In: mc.BStr(s), Mask: m, RestAt: k, OldMask: om, OldFail: o.fail}
									if f := checkReset(c); f != nil {
										r.Violation(mc.Case{Harness: "reset", Trace: mc.J(c), Msg: f.Msg})
									}
									n++
								}
							}
						}
					}
					atomic.AddInt64(&evals, n)
				})
				r.AddEval(int64(len(strs)), evals, evals, evals)
				r.Rule("a scanner that has read part of an old input (left in every kind of state, old reader delivering at once or byte by byte, or failing with an error other than EOF inside a word, a quote or an escape) is Reset onto every short string under every fragmentation; tokens, Complete, Err and Rest after every token count must be those of a fresh scanner; in half of the cases Rest is called twice and the first result dropped unread")
				r.Sample(rcase{Old: "old1 old2 old3", OldToks: 1, In: "a 'b c' d", Mask: 0b10101, RestAt: 1})
			},
			Replay: func(c mc.Case) *mc.Failure {
				var rc rcase
				if err := mc.Unmarshal(c.Trace, &rc); err != nil {
					return mc.Failf(-1, "bad trace: %v", err)
				}
				return checkReset(rc)
			},
		},
		mc.Harness{
			Name:    "long",
			Explore: func(r *mc.Run) {},
			Replay: func(c mc.Case) *mc.Failure {
				var l lcase
				if err := mc.Unmarshal(c.Trace, &l); err != nil {
					return mc.Failf(-1, "bad trace: %v", err)
				}
				return checkLong(l)
			},
		},
		mc.Harness{
			Name: "pool",
			Explore: func(r *mc.Run) {
				// First inputs leave the pooled scanner in every automaton state
				// (and long enough to dirty its buffers); second inputs: all short strings.
				firsts := []string{"", "a", "a ", "a\\", "\\", "'a b", "\"a b", "\"a\\", strings.Repeat("x y ", 2000) + "'unterminated", strings.Repeat("\"", 4097)}
				seconds := allStrings(alphabet[:7], mc.Pick(r, 4, 5))
				var evals int64
				mc.ParallelFor(len(seconds), r.Workers, func(i int) {
					for _, f := range firsts {
						c := pcase{mc.BStr(f), mc.BStr(seconds[i])}
						if fl := checkPool(c); fl != nil {
							r.Violation(mc.Case{Harness: "pool", Trace: mc.J(c), Msg: fl.Msg})
						}
						atomic.AddInt64(&evals, 1)
					}
				})
				// long inputs: sections longer than bufio's 4096-byte buffer in every
				// quoting state, escapes on the buffer boundary, terminated or not,
				// through Split and through scanners with several read sizes
				var long int64
				var longInputs []string
				for _, pre := range []int{4090, 4093, 4094, 4095, 4096, 8190, 8191} {
					for _, tail := range []string{"\\\"y\" z", "\\\\\" z", "\\\nq\" z", "\\a\" z"} {
						longInputs = append(longInputs, "\""+strings.Repeat("x", pre)+tail)
					}
				}
				for _, n := range []int{4094, 4095, 4096, 4097, 5000, 8192, 8193, 12289} {
					body := strings.Repeat("x", n)
					spaced := strings.Repeat("x y ", n/4)
					longInputs = append(longInputs,
						body, body+" tail", "a "+body,
						"'"+body+"' tail", "'"+body, "'"+spaced+"' tail", "pre'"+body+"'post next",
						"\""+body+"\" tail", "\""+body, "\""+spaced+"\" tail",
						strings.Repeat("\\x", n/2)+" tail", body+"\\", strings.Repeat(" ", n)+"w", strings.Repeat("\\\n", n/2)+"w")
				}
				for _, s := range longInputs {
					label := fmt.Sprintf("long input (%d bytes, starts %.12q)", len(s), s)
					if f := checkSplit(scase{mc.BStr(s)}); f != nil {
						f.Msg = label + ": " + fmt.Sprintf("%.300s", f.Msg)
						r.Violation(mc.Case{Harness: "split", Trace: mc.J(scase{mc.BStr(s)}), Msg: f.Msg})
					}
					long++
					for _, frag := range []int{0, 1000, 4096, 4097} {
						var mask uint64 // only the first 64 bytes can carry cut bits; use a fixed-size fragmenting reader instead
						_ = mask
						c := lcase{In: mc.BStr(s), Frag: frag}
						if f := checkLong(c); f != nil {
							f.Msg = label + ": " + fmt.Sprintf("%.300s", f.Msg)
							r.Violation(mc.Case{Harness: "long", Trace: mc.J(c), Msg: f.Msg})
						}
						long++
					}
				}
				r.AddEval(evals+long, evals+long, evals+long, evals)
				r.Count("long_inputs_across_the_read_buffer", long)
				r.Rule("Split(s2) right after Split(s1) for s1 leaving the pooled scanner in every state and every short s2; long inputs (sections of 4094..12289 bytes in every quoting state, escapes on the 4096-byte buffer boundary) through Split and through scanners reading 1000/4096/4097-byte fragments")
				r.Sample(pcase{"'a b", "c d"})
			},
			Replay: func(c mc.Case) *mc.Failure {
				var p pcase
				if err := mc.Unmarshal(c.Trace, &p); err != nil {
					return mc.Failf(-1, "bad trace: %v", err)
				}
				return checkPool(p)
			},
		},
	)
}

// hasUnquotedNewline reports whether s contains a newline outside quotes that
// is not part of a line continuation (a shell would end the command there).
func hasUnquotedNewline(s string) bool {
	_, _, st := shellh.Split(s)
	for i := range s {
		if s[i] == '\n' && (st[i] == shellh.SBreak || st[i] == shellh.SWord) {
			return true
		}
	}
	return false
}
