// C17: slice utilities rearrange and partition exactly as documented, for
// all arguments. E4: bounded-exhaustive enumeration of slices (distinct
// elements, spare capacity 0..2, nil), keep patterns and numeric arguments.
package main

import (
	"fmt"
	"math"
	"sync/atomic"

	"verif/mc"

	"github.com/creachadair/mds/slice"
)

type tcase struct {
	Fn    string `json:"fn"`
	Len   int    `json:"len"`   // -1 = nil slice
	Spare int    `json:"spare"` // spare capacity behind the slice
	Arg   int    `json:"arg"`   // k, n, i or the keep bit mask
	Shape []int  `json:"shape,omitempty"`
}

// mk builds a slice 0..n-1 with the given spare capacity; the spare region
// holds sentinels so that a write into it is visible.
func mk(n, spare int) []int {
	if n < 0 {
		return nil
	}
	full := make([]int, n+spare)
	for i := range full {
		full[i] = i
		if i >= n {
			full[i] = -100 - i
		}
	}
	return full[:n]
}

// clipped: the property calls the results "capacity-clipped": cap == len, so
// that appending to a result can never write into the backing array of the
// input (neither over later elements nor over spare capacity behind it).
func clipped(s, in []int, off int) bool {
	return cap(s) == len(s)
}

func mustPanic(f func()) (p any) {
	defer func() { p = recover() }()
	f()
	return nil
}

func check(c tcase) *mc.Failure {
	return mc.GuardT("slice-utils", c, func() *mc.Failure {
		n := max(c.Len, 0)
		in := mk(c.Len, c.Spare)
		switch c.Fn {
		case "Partition":
			keep := func(v int) bool { return c.Arg&(1<<v) != 0 }
			res := slice.Partition(in, keep)
			var want []int
			for v := 0; v < n; v++ {
				if keep(v) {
					want = append(want, v)
				}
			}
			if !mc.EqInts(res, want) {
				return mc.Failf(0, "Partition(0..%d, mask %b) = %v, want %v", n-1, c.Arg, res, want)
			}
			if len(res) > 0 && &res[0] != &in[0] {
				return mc.Failf(0, "Partition result is not a prefix of its argument")
			}
			seen := map[int]bool{}
			for _, v := range in {
				if v < 0 || v >= n || seen[v] {
					return mc.Failf(0, "Partition(mask %b) left %v, not a permutation of 0..%d", c.Arg, in, n-1)
				}
				seen[v] = true
			}
			if !clipped(res, in, 0) {
				return mc.Failf(0, "Partition(mask %b) result len %d cap %d is not capacity-clipped: appending to it would write into the input's backing array", c.Arg, len(res), cap(res))
			}
			if full := in[:cap(in)]; len(full) > n && full[n] != -100-n {
				return mc.Failf(0, "Partition wrote beyond the slice")
			}
		case "PartitionLong":
			pats := []func(v int) bool{
				func(v int) bool { return false }, func(v int) bool { return true }, func(v int) bool { return v%2 == 0 },
				func(v int) bool { return v%2 == 1 }, func(v int) bool { return v < n/2 }, func(v int) bool { return v >= n/2 },
				func(v int) bool { return v%3 == 0 }, func(v int) bool { return v != n/2 }, func(v int) bool { return v == n-1 },
				func(v int) bool { return v == 0 }, func(v int) bool { return v%16 < 8 }, func(v int) bool { return (v*7)%11 < 5 },
			}
			keep := pats[c.Arg%len(pats)]
			res := slice.Partition(in, keep)
			var want []int
			for v := 0; v < n; v++ {
				if keep(v) {
					want = append(want, v)
				}
			}
			if !mc.EqInts(res, want) {
				return mc.Failf(0, "Partition(0..%d, pattern %d): kept elements %.80s, want %.80s", n-1, c.Arg, fmt.Sprint(res), fmt.Sprint(want))
			}
			seen := map[int]bool{}
			for _, v := range in {
				if v < 0 || v >= n || seen[v] {
					return mc.Failf(0, "Partition(0..%d, pattern %d) is not a permutation of its input afterwards", n-1, c.Arg)
				}
				seen[v] = true
			}
			if len(res) > 0 && &res[0] != &in[0] || !clipped(res, in, 0) {
				return mc.Failf(0, "Partition(0..%d, pattern %d): result is not a capacity-clipped prefix (len %d cap %d)", n-1, c.Arg, len(res), cap(res))
			}
			if full := in[:cap(in)]; len(full) > n && full[n] != -100-n {
				return mc.Failf(0, "Partition wrote beyond the slice")
			}
		case "Rotate":
			k := c.Arg
			if k < -n || k > n {
				if p := mustPanic(func() { slice.Rotate(in, k) }); p == nil {
					return mc.Failf(0, "Rotate(len %d, k=%d) did not panic for an out-of-range offset", n, k)
				}
				return nil
			}
			slice.Rotate(in, k)
			for i := 0; i < n; i++ {
				if j := ((i+k)%n + n) % n; in[j] != i {
					return mc.Failf(0, "Rotate(0..%d with spare capacity %d, %d) = %v: element %d is not at index %d", n-1, c.Spare, k, in, i, j)
				}
			}
			if full := in[:cap(in)]; len(full) > n {
				for i := n; i < len(full); i++ {
					if full[i] != -100-i {
						return mc.Failf(0, "Rotate(len %d, spare capacity %d, %d) wrote beyond the slice at offset %d", n, c.Spare, k, i)
					}
				}
			}
		case "Chunks", "Batches":
			a := c.Arg
			if a < 0 {
				if p := mustPanic(func() {
					if c.Fn == "Chunks" {
						slice.Chunks(in, a)
					} else {
						slice.Batches(in, a)
					}
				}); p == nil {
					return mc.Failf(0, "%s(len %d, %d) did not panic", c.Fn, n, a)
				}
				return nil
			}
			var res [][]int
			if c.Fn == "Chunks" {
				res = slice.Chunks(in, a)
			} else {
				res = slice.Batches(in, a)
			}
			if c.Fn == "Batches" {
				if want := min(a, n); len(res) != want {
					return mc.Failf(0, "Batches(len %d, %d) returned %d batches, want %d", n, a, len(res), want)
				}
				if a == 0 && res != nil {
					return mc.Failf(0, "Batches(_, 0) is not nil")
				}
				lo, hi := 1<<30, 0
				for _, b := range res {
					lo, hi = min(lo, len(b)), max(hi, len(b))
				}
				if len(res) > 0 && hi-lo > 1 {
					return mc.Failf(0, "Batches(len %d, %d): batch lengths differ by more than one: %v", n, a, res)
				}
				if a == 0 {
					return nil
				}
			} else {
				if a == 0 && (len(res) != 1 || len(res[0]) != n) {
					return mc.Failf(0, "Chunks(len %d, 0) = %v, want one chunk with the whole input", n, res)
				}
				for i, ch := range res {
					if a > 0 && (len(ch) > a || i < len(res)-1 && len(ch) != a) {
						return mc.Failf(0, "Chunks(len %d, %d) = %v: chunk %d has length %d", n, a, res, i, len(ch))
					}
					if a > 0 && n > 0 && len(ch) == 0 {
						return mc.Failf(0, "Chunks(len %d, %d) = %v has an empty chunk", n, a, res)
					}
				}
			}
			off := 0
			for i, ch := range res {
				for j := range ch {
					if off+j >= n || &ch[j] != &in[off+j] {
						return mc.Failf(0, "%s(len %d, %d) = %v: piece %d is not the next span of the input", c.Fn, n, a, res, i)
					}
				}
				if !clipped(ch, in, off) {
					return mc.Failf(0, "%s(len %d, %d): piece %d (offset %d, len %d, cap %d) is not capacity-clipped: appending to it would write into the input's backing array", c.Fn, n, a, i, off, len(ch), cap(ch))
				}
				off += len(ch)
			}
			if off != n {
				return mc.Failf(0, "%s(len %d, %d) = %v covers %d elements", c.Fn, n, a, res, off)
			}
		case "Head", "Tail":
			var res []int
			w := min(c.Arg, n)
			start := 0
			if c.Fn == "Head" {
				res = slice.Head(in, c.Arg)
			} else {
				res = slice.Tail(in, c.Arg)
				start = n - w
			}
			if len(res) != w {
				return mc.Failf(0, "%s(len %d, %d) has length %d, want %d", c.Fn, n, c.Arg, len(res), w)
			}
			for j := range res {
				if &res[j] != &in[start+j] {
					return mc.Failf(0, "%s(len %d, %d) = %v is not the documented span of the input", c.Fn, n, c.Arg, res)
				}
			}
		case "At", "PtrAt":
			i := c.Arg
			j := i
			if j < 0 {
				j += n
			}
			inRange := j >= 0 && j < n
			if c.Fn == "At" {
				var got int
				p := mustPanic(func() { got = slice.At(in, i) })
				if inRange && (p != nil || got != j) {
					return mc.Failf(0, "At(len %d, %d) = %d (panic %v), want %d", n, i, got, p, j)
				}
				if !inRange && p == nil {
					return mc.Failf(0, "At(len %d, %d) did not panic", n, i)
				}
				return nil
			}
			got := slice.PtrAt(in, i)
			if inRange && (got == nil || got != &in[j]) {
				return mc.Failf(0, "PtrAt(len %d, %d) does not point at element %d", n, i, j)
			}
			if !inRange && got != nil {
				return mc.Failf(0, "PtrAt(len %d, %d) is not nil for an out-of-range offset", n, i)
			}
		case "Stripe":
			var vs [][]int
			next := 0
			for _, l := range c.Shape {
				row := make([]int, l)
				for j := range row {
					row[j] = next
					next++
				}
				vs = append(vs, row)
			}
			got := slice.Stripe(vs, c.Arg)
			var want []int
			for _, row := range vs {
				if c.Arg < len(row) {
					want = append(want, row[c.Arg])
				}
			}
			if !mc.EqInts(got, want) {
				return mc.Failf(0, "Stripe(shape %v, %d) = %v, want %v", c.Shape, c.Arg, got, want)
			}
		default:
			return mc.Failf(0, "unknown function %q", c.Fn)
		}
		return nil
	})
}

func main() {
	mc.Main("C17", mc.Harness{
		Name: "slice-utils",
		Explore: func(r *mc.Run) {
			maxLen := mc.Pick(r, 12, 16)
			rotLen := mc.Pick(r, 130, 300)
			var cases []tcase
			for l := -1; l <= maxLen; l++ {
				n := max(l, 0)
				for spare := 0; spare <= 2; spare++ {
					if l < 0 && spare > 0 {
						continue
					}
					for mask := 0; mask < 1<<n; mask++ {
						cases = append(cases, tcase{Fn: "Partition", Len: l, Spare: spare, Arg: mask})
					}
					for a := -1; a <= n+2; a++ {
						cases = append(cases, tcase{Fn: "Chunks", Len: l, Spare: spare, Arg: a}, tcase{Fn: "Batches", Len: l, Spare: spare, Arg: a})
					}
					for a := 0; a <= n+2; a++ {
						cases = append(cases, tcase{Fn: "Head", Len: l, Spare: spare, Arg: a}, tcase{Fn: "Tail", Len: l, Spare: spare, Arg: a})
					}
					for a := -n - 2; a <= n+1; a++ {
						cases = append(cases, tcase{Fn: "At", Len: l, Spare: spare, Arg: a}, tcase{Fn: "PtrAt", Len: l, Spare: spare, Arg: a})
					}
				}
			}
			for l := -1; l <= rotLen; l++ {
				n := max(l, 0)
				for k := -n - 2; k <= n+2; k++ {
					cases = append(cases, tcase{Fn: "Rotate", Len: l, Arg: k})
					if l >= 0 && l <= 40 {
						// spare capacity behind the slice: offsets must be taken against len, and
						// nothing beyond len may be touched
						for _, spare := range []int{1, 2, 3, 5, 8, l + 1} {
							cases = append(cases, tcase{Fn: "Rotate", Len: l, Spare: spare, Arg: k})
						}
					}
				}
			}
			// longer slices: thresholds in an implementation (block moves, unrolled
			// loops) lie beyond what 2^n enumeration can reach
			for _, l := range []int{17, 31, 32, 33, 63, 64, 65, 100, 128, 129, 255, 257} {
				for _, spare := range []int{0, 1, 100} {
					// keep patterns: none, all, alternating, first half, last half, every third, all but one
					for pat := 0; pat < 12; pat++ {
						cases = append(cases, tcase{Fn: "PartitionLong", Len: l, Spare: spare, Arg: pat})
					}
					for _, a := range []int{1, 2, 3, 7, 8, 15, 16, 17, l / 2, l - 1, l, l + 1} {
						cases = append(cases, tcase{Fn: "Chunks", Len: l, Spare: spare, Arg: a}, tcase{Fn: "Batches", Len: l, Spare: spare, Arg: a})
					}
				}
			}
			// arguments at the ends of the int range: the boundary arithmetic
			// (len+n-1, i+n, len-n, i+len) must not overflow for any allowed argument
			for l := 0; l <= 6; l++ {
				ext := []int{math.MaxInt, math.MaxInt - 1, math.MaxInt - l, math.MaxInt - l + 1, math.MaxInt - l + 2, math.MaxInt - l - 1,
					math.MaxInt / 2, math.MaxInt/2 + 1, 1 << 31, 1<<31 - 1, 1 << 32, 1<<32 - 1, 1 << 62}
				for _, a := range ext {
					if a <= 0 {
						continue // MaxInt-l+2 wraps for l < 2
					}
					for _, fn := range []string{"Chunks", "Batches", "Head", "Tail", "At", "PtrAt", "Rotate"} {
						if (fn == "Chunks" || fn == "Batches") && a < 1<<61 && a > 1<<24 {
							// a broken size computation would ask for a slice of 2^31..2^53
							// headers: tens of gigabytes, which kills the check instead of
							// failing it; the values near MaxInt fail fast, 2^20 is affordable
							a = 1 << 20
						}
						cases = append(cases, tcase{Fn: fn, Len: l, Arg: a})
					}
					for _, fn := range []string{"Chunks", "Batches", "At", "PtrAt", "Rotate"} { // negative: documented panic or nil
						cases = append(cases, tcase{Fn: fn, Len: l, Arg: -a}, tcase{Fn: fn, Len: l, Arg: -a - 1})
					}
				}
			}
			// many rows: an implementation that handles rows in groups must not
			// carry a decision from one group to the next
			for _, shp := range mc.AllSeqs(3, mc.Pick(r, 9, 11)) { // up to 9/11 rows of length 0..2
				if len(shp) < 4 {
					continue
				}
				for i := 0; i <= 2; i++ {
					cases = append(cases, tcase{Fn: "Stripe", Shape: shp, Arg: i})
				}
			}
			for rows := 8; rows <= 13; rows++ {
				for mask := 0; mask < 1<<rows; mask++ { // rows of length 1 or 3
					shp := make([]int, rows)
					for k := range shp {
						shp[k] = 1 + 2*(mask>>k&1)
					}
					cases = append(cases, tcase{Fn: "Stripe", Shape: shp, Arg: 1}, tcase{Fn: "Stripe", Shape: shp, Arg: 2})
				}
			}
			for _, shp := range mc.AllSeqs(4, 3) { // up to 3 rows of length 0..3
				for i := 0; i <= 3; i++ {
					cases = append(cases, tcase{Fn: "Stripe", Shape: shp, Arg: i})
				}
			}
			var nontriv int64
			mc.ParallelFor(len(cases), r.Workers, func(i int) {
				c := cases[i]
				if f := check(c); f != nil {
					r.Violation(mc.Case{Harness: "slice-utils", Trace: mc.J(c), Msg: f.Msg})
				}
				if c.Len >= 2 {
					atomic.AddInt64(&nontriv, 1)
				}
			})
			n := int64(len(cases))
			r.AddEval(n, n, n, nontriv)
			r.Bound("max_len", maxLen)
			r.Bound("rotate_max_len", rotLen)
			r.Bound("spare_capacity", "0..2, plus the nil slice")
			r.Rule("Partition: all 2^n keep patterns; Rotate: all k in -n-2..n+2; Chunks/Batches: n in -1..len+2 and 13 values at the ends of the int range (also for Head/Tail/At/PtrAt/Rotate, lengths 0..6); Head/Tail: 0..len+2; At/PtrAt: -len-2..len+1; Stripe: all ragged shapes up to 3x3, up to 9/11 rows of length 0..2, and 8..13 rows of length 1 or 3; non-trivial = cases on slices of length >= 2")
			r.Assume("capacity-clipped means cap == len for the Partition result and for every chunk/batch; checked with spare capacity 0..2 behind the input")
			r.Sample(tcase{Fn: "Rotate", Len: 7, Arg: -1})
			r.Sample(tcase{Fn: "Batches", Len: 0, Arg: 1})
		},
		Replay: func(c mc.Case) *mc.Failure {
			var t tcase
			if err := mc.Unmarshal(c.Trace, &t); err != nil {
				return mc.Failf(-1, "bad trace: %v", err)
			}
			return check(t)
		},
	})
}
