// Package mdiffh holds oracles shared by the mdiff checks C13 and C14.
package mdiffh

import (
	"fmt"

	"verif/mc"

	"github.com/creachadair/mds/mdiff"
	"github.com/creachadair/mds/slice"
)

// Lines maps a sequence over a small alphabet to lines.
func Lines(seq []int, alphabet []string) []string {
	out := make([]string, len(seq))
	for i, v := range seq {
		out[i] = alphabet[v]
	}
	return out
}

func eqStr(a, b []string) bool {
	if len(a) != len(b) {
		return false
	}
	for i := range a {
		if a[i] != b[i] {
			return false
		}
	}
	return true
}

// ReplayChunk checks that c's edits consume exactly Left[LStart,LEnd) and
// produce exactly Right[RStart,REnd). It returns the produced lines.
func ReplayChunk(c *mdiff.Chunk, left, right []string) ([]string, *mc.Failure) {
	if c.LStart < 1 || c.RStart < 1 || c.LEnd < c.LStart || c.REnd < c.RStart || c.LEnd-1 > len(left) || c.REnd-1 > len(right) {
		return nil, mc.Failf(0, "chunk ranges L[%d,%d) R[%d,%d) are not within the inputs (%d and %d lines)", c.LStart, c.LEnd, c.RStart, c.REnd, len(left), len(right))
	}
	lp, rp := c.LStart-1, c.RStart-1
	var out []string
	take := func(src []string, pos int, want []string, what string) *mc.Failure {
		if pos+len(want) > len(src) || !eqStr(src[pos:pos+len(want)], want) {
			return mc.Failf(0, "chunk L[%d,%d) R[%d,%d): %s %q does not match the input at line %d", c.LStart, c.LEnd, c.RStart, c.REnd, what, want, pos+1)
		}
		return nil
	}
	for _, e := range c.Edits {
		switch e.Op {
		case slice.OpEmit:
			if f := take(left, lp, e.X, "context (left)"); f != nil {
				return nil, f
			}
			if f := take(right, rp, e.X, "context (right)"); f != nil {
				return nil, f
			}
			out = append(out, e.X...)
			lp += len(e.X)
			rp += len(e.X)
		case slice.OpDrop:
			if f := take(left, lp, e.X, "deleted lines"); f != nil {
				return nil, f
			}
			lp += len(e.X)
		case slice.OpCopy:
			if f := take(right, rp, e.Y, "inserted lines"); f != nil {
				return nil, f
			}
			out = append(out, e.Y...)
			rp += len(e.Y)
		case slice.OpReplace:
			if f := take(left, lp, e.X, "replaced lines"); f != nil {
				return nil, f
			}
			if f := take(right, rp, e.Y, "replacement lines"); f != nil {
				return nil, f
			}
			out = append(out, e.Y...)
			lp += len(e.X)
			rp += len(e.Y)
		default:
			return nil, mc.Failf(0, "unknown edit op %q", e.Op)
		}
	}
	if lp != c.LEnd-1 || rp != c.REnd-1 {
		return nil, mc.Failf(0, "chunk claims L[%d,%d) R[%d,%d) but its edits consume %d left and produce %d right lines: %v", c.LStart, c.LEnd, c.RStart, c.REnd, lp-(c.LStart-1), rp-(c.RStart-1), c.Edits)
	}
	return out, nil
}

// Splice replaces each chunk's left range by its output; chunks must be
// ascending and disjoint.
func Splice(chunks []*mdiff.Chunk, left, right []string) *mc.Failure {
	var out []string
	pos := 0
	for i, c := range chunks {
		got, f := ReplayChunk(c, left, right)
		if f != nil {
			return f
		}
		if c.LStart-1 < pos {
			return mc.Failf(0, "chunk %d L[%d,%d) overlaps its predecessor (ends at %d)", i, c.LStart, c.LEnd, pos+1)
		}
		out = append(out, left[pos:c.LStart-1]...)
		out = append(out, got...)
		pos = c.LEnd - 1
	}
	out = append(out, left[pos:]...)
	if !eqStr(out, right) {
		return mc.Failf(0, "replacing each chunk's left range by its output gives %q, want %q", out, right)
	}
	return nil
}

// Describe renders chunks compactly for messages.
func Describe(cs []*mdiff.Chunk) string {
	s := ""
	for _, c := range cs {
		s += fmt.Sprintf("{L[%d,%d) R[%d,%d) %v}", c.LStart, c.LEnd, c.RStart, c.REnd, c.Edits)
	}
	return s
}

// LongPair builds a file of n lines and an edited copy: deletions, insertions
// and replacements of one or two lines with exactly gap unchanged lines
// between consecutive edits (so that context of size c merges neighbouring
// chunks when gap <= 2c and keeps them apart otherwise). Every tenth line is
// the same "}" so that the file has repeated lines. The result is an alphabet
// and two index sequences, the shape the checks' cases use.
func LongPair(n, gap int) (alpha []string, L, R []int) {
	for i := 0; i < n; i++ {
		if i%10 == 9 {
			alpha = append(alpha, "}")
		} else {
			alpha = append(alpha, fmt.Sprintf("line %d", i))
		}
		L = append(L, i)
	}
	fresh := func() int {
		alpha = append(alpha, fmt.Sprintf("new %d", len(alpha)-n))
		return len(alpha) - 1
	}
	pos, k := 2, 0
	for i := 0; i < n; {
		if i != pos {
			R = append(R, L[i])
			i++
			continue
		}
		switch k % 5 {
		case 0: // delete one line
			i++
		case 1: // insert one line
			R = append(R, fresh())
		case 2: // replace two lines by one
			R = append(R, fresh())
			i += 2
		case 3: // insert two lines
			R = append(R, fresh(), fresh())
		case 4: // delete two lines
			i += 2
		}
		k++
		pos = i + gap
		if gap == 0 {
			pos = i + 1 // adjacent edits would be one edit; keep one line between them
		}
	}
	if k%2 == 1 {
		R = append(R, fresh()) // an insertion at the very end
	}
	return alpha, L, R
}
