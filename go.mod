module verif

go 1.23

require github.com/creachadair/mds v0.0.0

replace github.com/creachadair/mds => /repo
