//go:build !verif

package main

import "github.com/creachadair/mds/omap"

func hiddenKey(m omap.Map[int, int]) string { return "" }
