#!/bin/bash
# Applies each behaviour-preserving change under $V/benign to $R and runs
# the quick checks of the properties it touches: none may raise an alarm.
V=${VERIF_DIR:-/verif}; R=${VERIF_REPO_DIR:-/repo}  # an isolated copy: VERIF_DIR=<copy of /verif> VERIF_REPO_DIR=VERIF_REPO=<worktree of /repo>
cd $V
export VERIF_SCRATCH_OUT=${TMPDIR:-/tmp}/verif_scratch_out  # runs on a modified tree must not touch $V/evidence
run() { f=$1; shift
  cd $R; [ -z "$(git status --porcelain)" ] || { echo "repo not clean"; exit 2; }
  git apply $V/benign/$f || { echo "BENIGN: $f does not apply"; return; }
  for id in "$@"; do (cd $V && ./check $id quick >${TMPDIR:-/tmp}/benign_$id.log 2>&1); rc=$?
    echo "BENIGN: change=$f check=$id exit=$rc known=$(grep -c '^KNOWN' ${TMPDIR:-/tmp}/benign_$id.log) hooks_fallback=$(grep -c 'falling back' ${TMPDIR:-/tmp}/benign_$id.log)"; done
  git -C $R checkout -q -- .; cd $V; }
run heapq-f1f2-repaired.diff C05 C06 C08 C09
run stree-rename-private-field.diff C01 C02 C03 C04
run cache-rwmutex-readers.diff C08 C09
run f5fixed-quote-style-queue-growth.diff C07 C14 C15 C16
run distinct-high-bits.diff C19
run lru-linked-list-store.diff C08 C09
run unified-explicit-counts.diff C13 C14
run rotate-by-reversal.diff C07 C17
run queue-no-head-reset-and-heap-set-allocates.diff C05 C06 C07 C08
run cache-replaced-callback-after-evictions.diff C08 C09
run mapset-intersects-any-order.diff C18 C19
run lcs-strip-common-prefix-suffix.diff C11 C12 C13 C14
run heap-prefers-right-child-ring-one-allocation.diff C05 C06 C08 C09 C10
run stack-prealloc-reset-drops-large-map-queue-regrow-reader-buffer.diff C07 C10 C14 C19
run heapq-cached-less-predicate.diff C05 C06 C08
run cache-clear-callbacks-after-unlock.diff C08 C09
run cache-remove-callback-after-unlock.diff C08 C09
run shell-reset-discards-buffered-input.diff C15 C16
run stree-new-sorts-callers-slice.diff C01 C02
run stree-inorderafter-binds-root-at-creation.diff C01 C04
run stack-slice-single-element-view.diff C10
run ring-of-single-pass-omap-new-closure-mapset-clone-loop.diff C04 C10 C18
run partition-rescans-swapped-element.diff C07 C17
run comparenatural-digit-strings-no-overflow.diff C20
run quote-double-quote-style-for-many-single-quotes.diff C15 C16
