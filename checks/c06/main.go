// C06: heapq position reports track every element's true offset.
// E1: explicit-state BFS over real queues with a recording update callback.
package main

import (
	"fmt"
	"sort"
	"strings"
	"sync/atomic"
	"time"

	"verif/mc"

	"github.com/creachadair/mds/heapq"
)

type op struct {
	K  string `json:"k"` // add pop remove set reorder clear
	A  int    `json:"a,omitempty"`
	Vs []int  `json:"vs,omitempty"`
}

func (o op) String() string { return fmt.Sprintf("%s(%d,%v)", o.K, o.A, o.Vs) }

type cfg struct {
	V      int     `json:"values"`
	N      int     `json:"max_len"`
	SetLen int     `json:"set_max_len"`
	Roots  [][]int `json:"roots"` // nil => New; else NewWithData (untracked elements >= 100)
	// NoMerge > 0: enumerate every history up to this depth without merging states.
	NoMerge int `json:"unmerged_depth,omitempty"`
	// Ties > 1: the order looks at value/Ties only, so distinct elements tie
	// in groups of Ties.
	Ties int `json:"priority_is_value_div,omitempty"`
}

type counters struct{ swapsReported, interiorRemove, setReports int64 }

type inst struct {
	c             *cfg
	q             *heapq.Queue[int]
	desc          bool
	held          map[int]bool // all held elements
	tracked       map[int]bool // held elements that entered through Add or Set
	pos           map[int]int  // last reported position
	ncb           int64
	cnt           *counters
	emptied, used bool
}

// The two orders are method values of ONE method bound to different receivers:
// different function values that share a code pointer (an implementation that
// compares function identity by code pointer must not take them for the same).
type order struct {
	desc bool
	div  int
}

func (o order) compare(a, b int) int {
	if o.div > 1 {
		a, b = a/o.div, b/o.div
	}
	if o.desc {
		return b - a
	}
	return a - b
}

var (
	asc = order{false, 0}.compare
	dsc = order{true, 0}.compare
	// the same orders on value/4: distinct elements that tie
	ascT = order{false, 4}.compare
	dscT = order{true, 4}.compare
)

func (s *inst) cmp() func(a, b int) int {
	if s.c.Ties > 1 {
		if s.desc {
			return dscT
		}
		return ascT
	}
	if s.desc {
		return dsc
	}
	return asc
}

// distinctSeqs lists all sequences of distinct values from 0..vals-1 up to maxLen.
func distinctSeqs(vals, maxLen int) [][]int {
	out := [][]int{{}}
	var rec func(cur []int)
	rec = func(cur []int) {
		if len(cur) == maxLen {
			return
		}
		for v := 0; v < vals; v++ {
			dup := false
			for _, c := range cur {
				if c == v {
					dup = true
				}
			}
			if dup {
				continue
			}
			nx := append(append([]int{}, cur...), v)
			out = append(out, nx)
			rec(nx)
		}
	}
	rec(nil)
	return out
}

func (s *inst) Enabled() []op {
	var ops []op
	if len(s.held) < s.c.N {
		for v := 0; v < s.c.V; v++ {
			if !s.held[v] {
				ops = append(ops, op{K: "add", A: v})
			}
		}
	}
	ops = append(ops, op{K: "pop"})
	for i := 0; i <= len(s.held); i++ {
		ops = append(ops, op{K: "remove", A: i})
	}
	for _, vs := range distinctSeqs(s.c.V, s.c.SetLen) {
		ops = append(ops, op{K: "set", Vs: vs})
	}
	return append(ops, op{K: "reorder"}, op{K: "clear"})
}

func (s *inst) data() []int {
	var out []int
	for i := 0; i < s.q.Len()+2; i++ { // bounded: a Peek that never says "no" must not hang the harness
		v, ok := s.q.Peek(i)
		if !ok {
			return out
		}
		out = append(out, v)
	}
	return out
}

func (s *inst) Key() string {
	var sb strings.Builder
	if s.desc {
		sb.WriteByte('d')
	} else {
		sb.WriteByte('a')
	}
	for _, v := range s.data() {
		p, ok := s.pos[v]
		if !ok {
			p = -1
		}
		t := 0
		if s.tracked[v] {
			t = 1
		}
		fmt.Fprintf(&sb, ",%d@%d/%d", v, p, t)
	}
	if s.emptied {
		sb.WriteString(" E")
	}
	sb.WriteString(" ")
	sb.WriteString(mc.Fingerprint(s.q)) // fields the harness does not know about
	return sb.String()
}

func (s *inst) drop(v int) {
	delete(s.held, v)
	delete(s.tracked, v)
	delete(s.pos, v)
}

func (s *inst) Apply(o op, check bool) *mc.Failure {
	n0 := len(s.held)
	cb0 := s.ncb
	switch o.K {
	case "add":
		s.held[o.A] = true
		s.tracked[o.A] = true
		idx := s.q.Add(o.A)
		if check {
			if p, ok := s.pos[o.A]; !ok || p != idx {
				return mc.Failf(0, "Add(%d) returned %d but the last reported position is %d (reported=%v)", o.A, idx, p, ok)
			}
		}
	case "pop":
		front := s.q.Front()
		v, ok := s.q.Pop()
		if n0 == 0 {
			if check && ok {
				return mc.Failf(0, "Pop on empty reported a value")
			}
			break
		}
		if check && (!ok || v != front) {
			return mc.Failf(0, "Pop=(%d,%v) but Front was %d", v, ok, front)
		}
		s.drop(v)
	case "remove":
		// The element whose reported position is o.A, if any.
		want, have := 0, false
		for v := range s.tracked {
			if p, ok := s.pos[v]; ok && p == o.A {
				want, have = v, true
			}
		}
		v, ok := s.q.Remove(o.A)
		if o.A >= n0 {
			if check && ok {
				return mc.Failf(0, "Remove(%d) with %d elements reported a value", o.A, n0)
			}
			break
		}
		if check {
			if !ok {
				return mc.Failf(0, "Remove(%d) with %d elements reported nothing", o.A, n0)
			}
			if have && v != want {
				return mc.Failf(0, "Remove(%d) removed %d, but %d is the element whose reported position is %d", o.A, v, want, o.A)
			}
			if o.A > 0 && o.A < n0-1 {
				atomic.AddInt64(&s.cnt.interiorRemove, 1)
			}
		}
		s.drop(v)
	case "set":
		for v := range s.held {
			s.drop(v)
		}
		for _, v := range o.Vs {
			s.held[v] = true
			s.tracked[v] = true
		}
		arg := make([]int, len(o.Vs), len(o.Vs)+3) // spare capacity behind the argument
		copy(arg, o.Vs)
		s.q.Set(arg)
		// the caller goes on using its slice: overwrite it and append to it
		for i := range arg {
			arg[i] = -5
		}
		_ = append(arg, -6, -7)
		if check {
			atomic.AddInt64(&s.cnt.setReports, s.ncb-cb0)
		}
	case "reorder":
		s.desc = !s.desc
		s.q.Reorder(s.cmp())
	case "clear":
		s.q.Clear()
		for v := range s.held {
			s.drop(v)
		}
	default:
		return mc.Failf(0, "unknown op %v", o)
	}
	if len(s.held) > 0 {
		s.used = true
	} else if s.used {
		s.emptied = true
	}
	if !check {
		return nil
	}
	atomic.AddInt64(&s.cnt.swapsReported, s.ncb-cb0)
	return s.observe()
}

func (s *inst) observe() *mc.Failure {
	d := s.data()
	if len(d) != len(s.held) || s.q.Len() != len(s.held) {
		return mc.Failf(0, "Len=%d, Peek sees %v, want %d elements", s.q.Len(), d, len(s.held))
	}
	at := map[int]int{}
	for i, v := range d {
		if !s.held[v] {
			return mc.Failf(0, "element %d at offset %d is not supposed to be held (heap %v)", v, i, d)
		}
		if _, dup := at[v]; dup {
			return mc.Failf(0, "element %d appears twice (heap %v)", v, d)
		}
		at[v] = i
	}
	vs := make([]int, 0, len(s.tracked))
	for v := range s.tracked {
		vs = append(vs, v)
	}
	sort.Ints(vs)
	for _, v := range vs {
		p, ok := s.pos[v]
		if !ok {
			return mc.Failf(0, "no position was ever reported for held element %d (heap %v)", v, d)
		}
		if at[v] != p {
			return mc.Failf(0, "last reported position of %d is %d but Peek finds it at %d (heap %v)", v, p, at[v], d)
		}
	}
	return nil
}

func makeBFS(c *cfg, cnt *counters) *mc.BFS[op] {
	return &mc.BFS[op]{
		Name: "heap-pos-bfs", Config: c, NRoots: 2 * len(c.Roots), Merge: c.NoMerge == 0, MaxDepth: c.NoMerge,
		Root: func(i int) (mc.Inst[op], *mc.Failure) {
			s := &inst{c: c, cnt: cnt, desc: i%2 == 1, held: map[int]bool{}, tracked: map[int]bool{}, pos: map[int]int{}}
			u := func(v, p int) { s.pos[v] = p; s.ncb++ }
			if r := c.Roots[i/2]; r == nil {
				s.q = heapq.New(s.cmp()).Update(u)
			} else {
				s.q = heapq.NewWithData(s.cmp(), append([]int(nil), r...)).Update(u)
				for _, v := range r {
					s.held[v] = true // present, but did not enter through Add or Set
				}
			}
			if f := s.observe(); f != nil {
				return nil, f
			}
			return s, nil
		},
	}
}

// longCase is one fixed long history on a heap of up to N distinct elements.
type longCase struct {
	N       int    `json:"n"`
	Pattern string `json:"pattern"` // asc desc perm zigzag
	Desc    bool   `json:"desc,omitempty"`
	Data    bool   `json:"with_data,omitempty"` // start from NewWithData of the first third
}

func longValues(n int, pattern string) []int {
	out := make([]int, n)
	for i := range out {
		switch pattern {
		case "asc":
			out[i] = i
		case "desc":
			out[i] = n - 1 - i
		case "zigzag":
			if i%2 == 0 {
				out[i] = i / 2
			} else {
				out[i] = n - 1 - i/2
			}
		default: // a fixed permutation: multiply by a unit modulo n
			m := 1
			for _, c := range []int{7919, 104729, 1299709, 3, 5, 7} {
				if gcd(c%max(n, 1), n) == 1 {
					m = c % n
					break
				}
			}
			out[i] = (i*m + n/3) % n
		}
	}
	return out
}

func gcd(a, b int) int {
	for b != 0 {
		a, b = b, a%b
	}
	return a
}

// checkLong drives one long history and compares, after every call, each
// tracked element's last reported position with where Peek finds it.
func checkLong(c longCase) *mc.Failure {
	return mc.GuardTL("heap-long", c, 20*time.Minute, func() *mc.Failure {
		cmp := asc
		if c.Desc {
			cmp = dsc
		}
		pos := map[int]int{}
		tracked := map[int]bool{}
		held := map[int]bool{}
		u := func(v, p int) { pos[v] = p }
		vals := longValues(c.N, c.Pattern)
		var q *heapq.Queue[int]
		start := 0
		if c.Data {
			start = c.N / 3
			q = heapq.NewWithData(cmp, append([]int(nil), vals[:start]...)).Update(u)
			for _, v := range vals[:start] {
				held[v] = true
			}
		} else {
			q = heapq.New(cmp).Update(u)
		}
		step := 0
		verify := func(what string) *mc.Failure {
			step++
			if q.Len() != len(held) {
				return mc.Failf(step, "%s: Len=%d want %d", what, q.Len(), len(held))
			}
			n := 0
			for i := 0; i < q.Len()+2; i++ {
				v, ok := q.Peek(i)
				if !ok {
					break
				}
				n++
				if !held[v] {
					return mc.Failf(step, "%s: element %d at offset %d is not held", what, v, i)
				}
				if tracked[v] {
					if p, ok := pos[v]; !ok || p != i {
						return mc.Failf(step, "%s: last reported position of %d is %d (reported=%v) but Peek finds it at %d (%d elements)", what, v, p, ok, i, q.Len())
					}
				}
			}
			if n != len(held) {
				return mc.Failf(step, "%s: Peek sees %d elements, want %d", what, n, len(held))
			}
			return nil
		}
		drop := func(v int) { delete(held, v); delete(tracked, v); delete(pos, v) }
		add := func(v int) *mc.Failure {
			held[v], tracked[v] = true, true
			idx := q.Add(v)
			if p, ok := pos[v]; !ok || p != idx {
				return mc.Failf(step+1, "Add(%d) returned %d but the last reported position is %d (reported=%v)", v, idx, p, ok)
			}
			return verify(fmt.Sprintf("Add(%d)", v))
		}
		removeAt := func(i int) *mc.Failure {
			want, have := 0, false
			for v := range tracked {
				if pos[v] == i {
					want, have = v, true
				}
			}
			v, ok := q.Remove(i)
			if !ok {
				return mc.Failf(step+1, "Remove(%d) with %d elements reported nothing", i, len(held))
			}
			if have && v != want {
				return mc.Failf(step+1, "Remove(%d) removed %d, but %d is the element whose reported position is %d", i, v, want, i)
			}
			drop(v)
			return verify(fmt.Sprintf("Remove(%d)", i))
		}
		for _, v := range vals[start:] {
			if f := add(v); f != nil {
				return f
			}
		}
		// thin out: remove at positions spread over all levels, re-adding every other one
		x := uint64(c.N)*2654435761 + 17
		for k := 0; k < c.N/2 && q.Len() > 0; k++ {
			x = x*6364136223846793005 + 1442695040888963407
			i := int((x >> 33) % uint64(q.Len()))
			if k%5 == 0 {
				i = q.Len() - 1
			}
			if f := removeAt(i); f != nil {
				return f
			}
			if k%2 == 0 {
				if f := add(c.N + k); f != nil {
					return f
				}
			}
		}
		q.Reorder(map[bool]func(a, b int) int{true: asc, false: dsc}[c.Desc])
		if f := verify("Reorder"); f != nil {
			return f
		}
		for k := 0; k < c.N/4 && q.Len() > 0; k++ {
			v, _ := q.Pop()
			drop(v)
			if f := verify("Pop"); f != nil {
				return f
			}
		}
		// replace the contents: every new element must be reported where Set put it
		for v := range held {
			drop(v)
		}
		fresh := longValues(c.N, "zigzag")
		for i := range fresh {
			fresh[i] += 10 * c.N
			held[fresh[i]], tracked[fresh[i]] = true, true
		}
		q.Set(fresh)
		if f := verify("Set"); f != nil {
			return f
		}
		for k := 0; q.Len() > 0; k++ {
			if k%3 == 2 {
				if f := removeAt(q.Len() / 2); f != nil {
					return f
				}
				continue
			}
			v, ok := q.Pop()
			if !ok {
				return mc.Failf(step+1, "Pop on %d elements reported nothing", len(held))
			}
			if !held[v] {
				return mc.Failf(step+1, "Pop returned %d, which is not held", v)
			}
			drop(v)
			if f := verify("Pop"); f != nil {
				return f
			}
		}
		return nil
	})
}

func main() {
	var cnt counters
	mc.Main("C06", mc.Harness{
		Name: "heap-long", HangLimit: 20 * time.Minute,
		Explore: func(r *mc.Run) {
			var cases []longCase
			for _, n := range mc.Pick(r, []int{17, 33, 64, 65, 129, 257, 513, 1025}, []int{17, 33, 64, 65, 129, 257, 300, 513, 1023, 1024, 1025, 2049, 4097}) {
				for _, p := range []string{"asc", "desc", "perm", "zigzag"} {
					for _, d := range []bool{false, true} {
						cases = append(cases, longCase{n, p, d, false}, longCase{n, p, d, true})
					}
				}
			}
			mc.ParallelFor(len(cases), r.Workers, func(i int) {
				if f := checkLong(cases[i]); f != nil {
					r.Violation(mc.Case{Harness: "heap-long", Trace: mc.J(cases[i]), Msg: f.Msg, Step: f.Step})
				}
			})
			n := int64(len(cases))
			r.AddEval(n, n, n, n)
			r.Rule("fixed long histories (fill in four orders, thin out by Remove at positions on every level with re-adds, Reorder, drain by Pop and Remove) on heaps of 17...300/3000 distinct elements, both directions, from New and from NewWithData; every tracked element's reported position compared with Peek after every call")
			r.Sample(longCase{65, "perm", false, true})
		},
		Replay: func(c mc.Case) *mc.Failure {
			var l longCase
			if err := mc.Unmarshal(c.Trace, &l); err != nil {
				return mc.Failf(-1, "bad trace: %v", err)
			}
			return checkLong(l)
		},
	}, mc.Harness{
		Name: "heap-pos-bfs",
		Explore: func(r *mc.Run) {
			c := &cfg{V: mc.Pick(r, 6, 8), N: mc.Pick(r, 6, 8), SetLen: mc.Pick(r, 3, 3),
				Roots: [][]int{nil, {100, 101}, {102, 100, 101}}}
			res := makeBFS(c, &cnt).Run(r)
			// a deeper heap (three full levels) without Set, which dominates the alphabet
			deep := &cfg{V: mc.Pick(r, 8, 9), N: mc.Pick(r, 8, 9), SetLen: 0, Roots: [][]int{nil}}
			res2 := makeBFS(deep, &cnt).Run(r)
			flat := &cfg{V: 3, N: 3, SetLen: 1, Roots: [][]int{nil, {100}}, NoMerge: mc.Pick(r, 5, 6)}
			res3 := makeBFS(flat, &cnt).Run(r)
			// distinct elements that tie under the order (priority = value/4)
			ties := &cfg{V: 8, N: mc.Pick(r, 5, 6), SetLen: 0, Roots: [][]int{nil}, Ties: 4}
			res4 := makeBFS(ties, &cnt).Run(r)
			r.Bound("tie_configuration", fmt.Sprintf("8 distinct elements ordered by value/4 (two groups of four that tie), up to %d held, no Set: %d states", ties.N, res4.States))
			r.Bound("unmerged_configuration", fmt.Sprintf("3 values, up to 3 elements: every history up to depth %d without state merging: %d histories", flat.NoMerge, res3.States))
			r.Bound("deeper_configuration", fmt.Sprintf("%d distinct values, up to %d elements, no Set: %d states", deep.V, deep.N, res2.States))
			r.Bound("distinct_values", c.V)
			r.Bound("max_len", c.N)
			r.Bound("set_args", fmt.Sprintf("all sequences of distinct values up to length %d", c.SetLen))
			r.Bound("roots", "New, and NewWithData with 2 or 3 untracked elements; both directions; update callback installed")
			r.Bound("depth_reached", res.Depth)
			r.Count("position_reports_observed", cnt.swapsReported)
			r.Count("interior_remove", cnt.interiorRemove)
			r.Count("reports_during_set", cnt.setReports)
			r.AddEval(0, 0, 0, cnt.interiorRemove)
			r.Rule("BFS to closure over Add/Pop/Remove(i)/Set/Reorder/Clear on distinct elements with a recording Update callback, states merged by (heap array, reported positions, direction); non-trivial = interior removals")
			r.Assume("elements are distinct, as the property requires for identifying an element by value")
			r.Sample(map[string]any{"root": "New(asc).Update(u)", "ops": "Add 3, Add 1, Add 2, Remove(1), Add 0"})
		},
		Replay: func(c mc.Case) *mc.Failure {
			var cf cfg
			if err := mc.Unmarshal(c.Config, &cf); err != nil {
				return mc.Failf(-1, "bad config: %v", err)
			}
			var local counters
			return makeBFS(&cf, &local).Replay(c)
		},
	})
}
