// Package shellh holds the independent POSIX references used by checks C15
// and C16: a tokenizer and an unquoting scanner written from the Shell
// Command Language section 2.2 (Quoting), and a runner for real shells.
package shellh

import (
	"bytes"
	"fmt"
	"os"
	"os/exec"
	"strings"
)

// POSIX 2.2: characters that shall be quoted to represent themselves, and
// characters that may need to be quoted under certain circumstances.
const (
	MustQuote = "|&;<>()$`\\\"' \t\n"
	MayQuote  = "*?[#~=%"
)

// Tok is one field with the input offset just past the bytes it consumed
// (including the blank that ended it).
type Tok struct {
	Text string
	End  int
	// Terminated is set when an unquoted blank or newline ended the field
	// (as opposed to the input running out).
	Terminated bool
}

// States of the shadow automaton (for coverage only).
const (
	SBreak = iota
	SBreakQ
	SWord
	SWordQ
	SSingle
	SDouble
	SDoubleQ
	NStates
)

// Classes of bytes.
const (
	COther = iota
	CBlank
	CNewline
	CBackslash
	CSingle
	CDouble
	NClasses
)

// ClassOf classifies a byte as the standard does for quoting purposes.
func ClassOf(c byte) int {
	switch c {
	case ' ', '\t':
		return CBlank
	case '\n':
		return CNewline
	case '\\':
		return CBackslash
	case '\'':
		return CSingle
	case '"':
		return CDouble
	}
	return COther
}

// Split is the reference tokenizer. It returns the fields, whether the input
// is complete (no open quotation, no dangling backslash), and the sequence of
// shadow-automaton states *before* each byte.
func Split(in string) (toks []Tok, complete bool, states []int) {
	const (
		unq = iota
		single
		double
	)
	mode := unq
	started := false
	pending := false
	var cur []byte
	shadow := func() int {
		switch {
		case mode == single:
			return SSingle
		case mode == double:
			return SDouble
		case started:
			return SWord
		}
		return SBreak
	}
	n := len(in)
	for i := 0; i < n; {
		c := in[i]
		states = append(states, shadow())
		switch mode {
		case unq:
			switch {
			case c == '\\':
				if i+1 == n {
					pending = true
					i++
					continue
				}
				if started {
					states = append(states, SWordQ)
				} else {
					states = append(states, SBreakQ)
				}
				if in[i+1] == '\n' { // line continuation: removed, joins nothing, starts nothing
					i += 2
					continue
				}
				cur = append(cur, in[i+1])
				started = true
				i += 2
			case c == ' ' || c == '\t' || c == '\n':
				if started {
					toks = append(toks, Tok{string(cur), i + 1, true})
					cur, started = nil, false
				}
				i++
			case c == '\'':
				mode, started = single, true
				i++
			case c == '"':
				mode, started = double, true
				i++
			default:
				cur = append(cur, c)
				started = true
				i++
			}
		case single:
			if c == '\'' {
				mode = unq
			} else {
				cur = append(cur, c)
			}
			i++
		case double:
			switch {
			case c == '"':
				mode = unq
				i++
			case c == '\\':
				if i+1 == n {
					pending = true
					i++
					continue
				}
				states = append(states, SDoubleQ)
				switch nx := in[i+1]; nx {
				case '\n':
					// removed
				case '\\', '"':
					cur = append(cur, nx)
				default:
					// The backslash keeps its literal meaning. ($ and ` are not
					// treated specially: the property is about blanks, newlines,
					// backslash and quotes only; see DESIGN.md section 7.)
					cur = append(cur, '\\', nx)
				}
				i += 2
			default:
				cur = append(cur, c)
				i++
			}
		}
	}
	complete = mode == unq && !pending
	if started || pending && mode == unq {
		toks = append(toks, Tok{string(cur), n, false})
	}
	return toks, complete, states
}

// Unquote interprets a string produced by a quoting function as one shell
// word, by the rules of POSIX 2.2 for backslash, single quotes and double
// quotes. It fails if any character of the must-quote or may-need-quoting
// lists occurs unquoted, or if a double-quoted part contains something the
// shell would still expand ($ or a backquote not preceded by a backslash).
func Unquote(q string) (string, error) {
	var out []byte
	inSingle, inDouble := false, false
	for i := 0; i < len(q); i++ {
		c := q[i]
		switch {
		case inSingle:
			if c == '\'' {
				inSingle = false
			} else {
				out = append(out, c)
			}
		case inDouble:
			// POSIX 2.2.3: inside double quotes $ and ` keep their meaning, a
			// backslash quotes only $ ` " \ and newline, everything else is literal.
			switch {
			case c == '"':
				inDouble = false
			case c == '$' || c == '`':
				return "", fmt.Errorf("byte %q at offset %d is inside double quotes, where a shell still expands it", c, i)
			case c == '\\' && i+1 < len(q) && strings.IndexByte("$`\"\\", q[i+1]) >= 0:
				out = append(out, q[i+1])
				i++
			case c == '\\' && i+1 < len(q) && q[i+1] == '\n':
				return "", fmt.Errorf("backslash-newline is a line continuation, not a quoted newline")
			default:
				out = append(out, c)
			}
		case c == '"':
			inDouble = true
		case c == '\'':
			inSingle = true
		case c == '\\':
			if i+1 == len(q) {
				return "", fmt.Errorf("dangling backslash")
			}
			if q[i+1] == '\n' {
				return "", fmt.Errorf("backslash-newline is a line continuation, not a quoted newline")
			}
			out = append(out, q[i+1])
			i++
		case strings.IndexByte(MustQuote, c) >= 0 || strings.IndexByte(MayQuote, c) >= 0:
			return "", fmt.Errorf("byte %q at offset %d is special to a shell and is not quoted", c, i)
		default:
			out = append(out, c)
		}
	}
	if inSingle {
		return "", fmt.Errorf("unterminated single quote")
	}
	if inDouble {
		return "", fmt.Errorf("unterminated double quote")
	}
	if q == "" {
		return "", fmt.Errorf("empty output denotes no word at all")
	}
	return string(out), nil
}

// sq quotes s for the harness's own scripts (trusted, minimal).
func sq(s string) string { return "'" + strings.ReplaceAll(s, "'", `'\''`) + "'" }

// Shells lists the POSIX shells available, as argv prefixes.
func Shells() map[string][]string {
	out := map[string][]string{}
	if p, err := exec.LookPath("dash"); err == nil {
		out["dash"] = []string{p}
	}
	if p, err := exec.LookPath("bash"); err == nil {
		out["bash+B"] = []string{p, "+B"} // brace expansion is not POSIX
	}
	return out
}

func runScript(argv []string, script string) ([]byte, error) {
	f, err := os.CreateTemp("", "shellh*.sh")
	if err != nil {
		return nil, err
	}
	defer os.Remove(f.Name())
	f.WriteString(script)
	f.Close()
	cmd := exec.Command(argv[0], append(append([]string{}, argv[1:]...), f.Name())...)
	cmd.Env = []string{"PATH=/usr/bin:/bin", "LC_ALL=C"}
	var stderr bytes.Buffer
	cmd.Stderr = &stderr
	out, err := cmd.Output()
	if err != nil {
		return out, fmt.Errorf("%v: %s", err, stderr.String())
	}
	return out, nil
}

// EvalWords evaluates each quoted word as one command word in a real shell
// and returns what the shell obtained for each.
func EvalWords(argv []string, quoted []string) ([]string, error) {
	var sb strings.Builder
	for _, q := range quoted {
		fmt.Fprintf(&sb, "printf '%%s\\0' %s\n", q)
	}
	out, err := runScript(argv, sb.String())
	if err != nil {
		return nil, err
	}
	parts := strings.Split(string(out), "\x00")
	if len(parts) > 0 {
		parts = parts[:len(parts)-1]
	}
	return parts, nil
}

// SplitWords lets a real shell split each input into fields (eval "set -- $IN").
func SplitWords(argv []string, inputs []string) ([][]string, error) {
	var sb strings.Builder
	for _, in := range inputs {
		fmt.Fprintf(&sb, "IN=%s\neval \"set -- $IN\"\nprintf '%%d\\0' $#\nfor a do printf '%%s\\0' \"$a\"; done\n", sq(in))
	}
	out, err := runScript(argv, sb.String())
	if err != nil {
		return nil, err
	}
	parts := strings.Split(string(out), "\x00")
	var res [][]string
	for i := 0; i < len(parts)-1; {
		var n int
		fmt.Sscanf(parts[i], "%d", &n)
		i++
		if i+n > len(parts)-1 {
			return nil, fmt.Errorf("short shell output")
		}
		res = append(res, append([]string{}, parts[i:i+n]...))
		i += n
	}
	if len(res) != len(inputs) {
		return nil, fmt.Errorf("shell answered %d of %d inputs", len(res), len(inputs))
	}
	return res, nil
}
