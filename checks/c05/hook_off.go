//go:build !verif

package main

import "github.com/creachadair/mds/heapq"

func cloneQ(q *heapq.Queue[int]) *heapq.Queue[int] { return nil }
