#!/usr/bin/env python3
"""Syntactic mutation run: small mechanical changes (operator swaps, off-by-one
constants, deleted statements) to the files the properties are anchored in.

For each mutant: build; run the repository's own test suite; if the suite
still passes (the mutant "survives the tests"), run the quick checks of the
properties anchored in that file. A mutant that survives the suite and every
related check is either equivalent or a gap; those are listed for review.

Works on an isolated copy only:
  VERIF_DIR=<copy of /verif> VERIF_REPO_DIR=<worktree of /repo> tools/mutate.py [max_per_file] [file-substring]
Output: JSON lines on stdout / $VERIF_DIR/mutation/results.jsonl
"""
import json, os, re, subprocess, sys, time

V = os.environ.get("VERIF_DIR", "/verif")
R = os.environ.get("VERIF_REPO_DIR")
if not R or os.path.realpath(R) == "/repo":
    sys.exit("refusing to mutate /repo: set VERIF_REPO_DIR to a scratch worktree")
ENV = dict(os.environ, GOFLAGS="-mod=mod", GOPROXY="off", GOSUMDB="off", GOTOOLCHAIN="local",
           VERIF_REPO=R, VERIF_SCRATCH_OUT=os.path.join(os.environ.get("TMPDIR", "/tmp"), "verif_scratch_out"))

FILES = {
    "stree/stree.go": ["C01", "C02", "C03", "C04"], "stree/node.go": ["C01", "C02", "C03", "C04"],
    "stree/cursor.go": ["C03", "C04"], "omap/omap.go": ["C04"],
    "heapq/heapq.go": ["C05", "C06", "C08"], "queue/queue.go": ["C07"],
    "cache/cache.go": ["C08", "C09"], "cache/lru.go": ["C08", "C09"],
    "stack/stack.go": ["C10"], "mlink/list.go": ["C10"], "mlink/queue.go": ["C10"], "ring/ring.go": ["C10"],
    "slice/edit.go": ["C11", "C12", "C13"], "slice/lis.go": ["C12"], "slice/slice.go": ["C17", "C07"],
    "mdiff/mdiff.go": ["C13", "C14"], "mdiff/format.go": ["C14"], "mdiff/reader.go": ["C14"],
    "shell/shell.go": ["C15", "C16"], "mapset/mapset.go": ["C18"], "distinct/distinct.go": ["C19"],
    "mbits/mbits.go": ["C20"], "mstr/mstr.go": ["C20"],
}

SWAPS = [
    (r"(?<![<>=!:+\-*/&|^])<=(?!=)", "<"), (r"(?<![<>=!\-])<(?![<=\-])", "<="),
    (r"(?<![<>=!\-])>=(?!=)", ">"), (r"(?<![<>=!\-])>(?![>=])", ">="),
    (r"==", "!="), (r"!=", "=="),
    (r"&&", "||"), (r"\|\|", "&&"),
    (r"\+ 1\b", "- 1"), (r"- 1\b", "+ 1"), (r"\+1\b", "-1"), (r"(?<![\w)\]])-1\b", "+1"),
    (r"\+\+", "--"), (r"(?<!-)--(?!-)", "++"),
    (r"\+=", "-="), (r"-=", "+="),
    (r"\btrue\b", "false"), (r"\bfalse\b", "true"),
    (r"/ 2\b", "/ 3"), (r"\* 2\b", "* 3"), (r"2\*", "3*"),
    (r">>= 1", ">>= 2"), (r"\bbreak\b", "continue"),
    (r"\[:(\w+)\]", r"[:\1-1]"), (r"\[(\w+):\]", r"[\1+1:]"),
    # pass 3: branch forcing, negation removal, small constants
    (r"\bif (?!true \{|false \{)[^{;]+ \{$", "if true {"), (r"\bif (?!true \{|false \{)[^{;]+ \{$", "if false {"),
    (r"(?<![\w)\]])!(?=[\w(])", ""),
    (r"(?<=[=<>(,\[ ])0(?=[;,)\] ]|$)", "1"), (r"(?<=[=<>(,\[ ])1(?=[;,)\] ]|$)", "2"),
    (r"\blen\((\w+)\)", r"(len(\1)-1)"),
]


def code_lines(src):
    """Indices of lines inside function bodies that are not comments."""
    out, depth, infunc = [], 0, False
    for i, line in enumerate(src):
        s = line.strip()
        if s.startswith("func ") and s.endswith("{"):
            infunc, depth = True, 0
        if infunc and not s.startswith("//") and s:
            out.append(i)
        depth += line.count("{") - line.count("}")
        if infunc and depth <= 0 and "}" in line:
            infunc = False
    return out


def mutants(path):
    src = open(os.path.join(R, path)).read().split("\n")
    res = []
    for i in code_lines(src):
        line = src[i]
        code = line.split("//")[0]
        if "func " in code and code.strip().startswith("func"):
            continue  # signatures: type parameters look like comparisons
        for pat, rep in SWAPS:
            for m in re.finditer(pat, code):
                if '"' in code[:m.start()] and code[:m.start()].count('"') % 2 == 1:
                    continue  # inside a string literal
                new = code[:m.start()] + re.sub(pat, rep, code[m.start():], count=1) + line[len(code):]
                if new != line:
                    res.append((i, line.strip(), new.strip(), new))
        s = code.strip()
        # statement deletion: plain assignments and calls
        if re.match(r"^[\w.\[\]]+(, [\w.\[\]]+)* (=|\+=|-=|>>=) ", s) or re.match(r"^[\w.]+\([^{}]*\)$", s) or re.match(r"^[\w.\[\]]+(\+\+|--)$", s):
            res.append((i, s, "(deleted)", re.match(r"^\s*", line).group(0) + "_ = 0"))
    return src, res


def run(cmd, cwd, timeout):
    try:
        p = subprocess.run(cmd, cwd=cwd, env=ENV, capture_output=True, text=True, timeout=timeout)
        return p.returncode, p.stdout + p.stderr
    except subprocess.TimeoutExpired:
        return 124, "timeout"


def main():
    cap = int(sys.argv[1]) if len(sys.argv) > 1 else 30
    only = sys.argv[2] if len(sys.argv) > 2 else ""
    outdir = os.path.join(V, "mutation")
    os.makedirs(outdir, exist_ok=True)
    done = set()
    rp = os.path.join(outdir, "results.jsonl")
    if os.path.exists(rp):
        for l in open(rp):
            try:
                r = json.loads(l)
                done.add((r["file"], r["line"], r["to"]))
            except Exception:
                pass
    out = open(rp, "a")
    for path, checks in FILES.items():
        if only and only not in path:
            continue
        full = os.path.join(R, path)
        if not os.path.exists(full):
            continue
        src, ms = mutants(path)
        if len(ms) > cap:  # an even sample, deterministic
            step = len(ms) / cap
            ms = [ms[int(k * step)] for k in range(cap)]
        orig = "\n".join(src)
        pkg = "./" + os.path.dirname(path)
        for (i, old, new, newline) in ms:
            if (path, i + 1, new[:120]) in done:
                continue  # already tried in an earlier pass
            mutated = list(src)
            mutated[i] = newline
            open(full, "w").write("\n".join(mutated))
            rec = {"file": path, "line": i + 1, "from": old[:120], "to": new[:120]}
            try:
                rc, o = run(["go", "build", "./..."], R, 300)
                if rc != 0:
                    rec["status"] = "does-not-build"
                    continue
                rc, o = run(["go", "vet", pkg], R, 300)
                rc, o = run(["go", "test", "-vet=off", "-count=1", "-timeout", "120s", "./..."], R, 400)
                if rc != 0:
                    rec["status"] = "killed-by-suite"
                    continue
                rec["status"] = "survives-suite"
                rec["checks"] = {}
                for c in checks:
                    t0 = time.time()
                    rc, o = run([os.path.join(V, "check"), c, "quick"], V, 900)
                    m = re.search(r"^violation: (.*)$", o, re.M)
                    rec["checks"][c] = {"exit": rc, "s": round(time.time() - t0), "first": (m.group(1)[:160] if m else "")}
                    if rc == 1:
                        break  # reported: enough
                rec["reported"] = any(v["exit"] == 1 for v in rec["checks"].values())
            finally:
                open(full, "w").write(orig)
                out.write(json.dumps(rec) + "\n")
                out.flush()
                print(json.dumps(rec), flush=True)
    subprocess.run(["git", "-C", R, "checkout", "-q", "--", "."])


if __name__ == "__main__":
    main()
