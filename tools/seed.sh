#!/bin/bash
# tools/seed.sh confirm <worktree> <variant a|b> <pkgdir>
#     Confirms a seeded change in its scratch worktree: builds, the whole
#     suite passes with the change, the demo fails with it and passes without.
# tools/seed.sh keep <worktree> <variant> <seedname> <property> <pkgdir> "<needs>"
# Copies patch.diff, the demo and a meta.json into /verif/seeded/<seedname>/.
# tools/seed.sh run <seedname> <ID> [<ID>...]
# Applies /verif/seeded/<seedname>/patch.diff to $R, runs the quick
#     checks named, prints one line per check, and restores $R.
V=${VERIF_DIR:-/verif}; R=${VERIF_REPO_DIR:-/repo}  # an isolated copy: VERIF_DIR=<copy of /verif> VERIF_REPO_DIR=VERIF_REPO=<worktree of /repo>
export GOFLAGS=-mod=mod GOPROXY=off GOSUMDB=off GOTOOLCHAIN=local
export VERIF_SCRATCH_OUT=${TMPDIR:-/tmp}/verif_scratch_out  # runs on a modified tree must not touch $V/evidence
set -u
cmd=$1; shift
case "$cmd" in
confirm)
  wt=$1; v=$2; pkg=$3
  out=$wt/_out/$v
  cd "$wt" || exit 2
  git checkout -q -- . && git clean -fdq -e _out
  git apply "$out/patch.diff" || { echo "CONFIRM: patch does not apply"; exit 1; }
  if git diff --name-only | grep -q '_test\.go$'; then echo "CONFIRM: patch touches a test file"; git checkout -q -- .; exit 1; fi
  go build ./... || { echo "CONFIRM: build fails"; git checkout -q -- .; exit 1; }
  if go test -vet=off -count=1 ./... >/tmp/seed_suite.log 2>&1; then echo "CONFIRM: suite passes with change"; else echo "CONFIRM: suite FAILS with change"; tail -20 /tmp/seed_suite.log; git checkout -q -- .; exit 1; fi
  demo=$(ls "$out"/*_test.go | head -1)
  cp "$demo" "$pkg/zz_seed_demo_test.go"
  if go test -vet=off -count=1 "./$pkg/" >/tmp/seed_demo1.log 2>&1; then echo "CONFIRM: demo PASSES with change (bad)"; rc=1; else echo "CONFIRM: demo fails with change"; rc=0; fi
  git checkout -q -- .
  if go test -vet=off -count=1 "./$pkg/" >/tmp/seed_demo2.log 2>&1; then echo "CONFIRM: demo passes without change"; else echo "CONFIRM: demo FAILS without change (bad)"; tail -20 /tmp/seed_demo2.log; rc=1; fi
  rm -f "$pkg/zz_seed_demo_test.go"
  git clean -fdq -e _out
  exit $rc
  ;;
keep)
  wt=$1; v=$2; name=$3; prop=$4; pkg=$5; needs=$6
  d=$V/seeded/$name
  mkdir -p "$d"
  cp "$wt/_out/$v/patch.diff" "$d/patch.diff"
  cp "$wt/_out/$v/"*_test.go "$d/" 2>/dev/null
  cp "$wt/_out/$v/notes.md" "$d/notes.md" 2>/dev/null
  python3 - "$d" "$prop" "$pkg" "$needs" <<'EOF'
import json,sys,glob,os
d,prop,pkg,needs=sys.argv[1:5]
demo=[os.path.basename(p) for p in glob.glob(d+'/*_test.go')]
json.dump({"property":prop,"breaks":prop,"demo":demo,"demo_package_dir":pkg,"needs_to_manifest":needs,
 "confirmed":"tools/seed.sh confirm: go build ./... ok; whole suite passes with the change; demo fails with the change and passes without (scratch worktree)",
 "source":"independent sub-agent given only the property text"},open(d+'/meta.json','w'),indent=1)
EOF
  echo "kept $d"
  ;;
run)
  name=$1; shift
  d=$V/seeded/$name
  cd $R || exit 2
  if [ -n "$(git status --porcelain)" ]; then echo "RUN: $R not clean"; exit 2; fi
  git apply "$d/patch.diff" || { echo "RUN: patch does not apply"; exit 2; }
  for id in "$@"; do
    t0=$(date +%s)
    (cd $V && ./check "$id" ${TIER:-quick} >${TMPDIR:-/tmp}/seed_run_$id.log 2>&1); rc=$?
    t1=$(date +%s)
    nv=$(grep -c '^VIOLATION' ${TMPDIR:-/tmp}/seed_run_$id.log)
    tt=""; [ "${TIER:-quick}" = thorough ] && tt="[thorough]"; echo "RUN$tt: seed=$name check=$id exit=$rc violations_lines=$nv time=$((t1-t0))s :: $(grep -m1 '^violation:' ${TMPDIR:-/tmp}/seed_run_$id.log | cut -c1-200)"
  done
  git -C $R checkout -q -- .
  ;;
esac
