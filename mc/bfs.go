package mc

import (
	"bytes"
	"crypto/sha256"
	"encoding/json"
	"fmt"
	"sync"
	"sync/atomic"
)

func bytesReader(b []byte) *bytes.Reader { return bytes.NewReader(b) }

// Inst is one live instance of the system under test paired with its
// reference model. Instances are never cloned: a successor state is reached
// by building a fresh instance and replaying the shortest path to it.
type Inst[O any] interface {
	// Enabled lists the operations of the alphabet applicable in this state.
	Enabled() []O
	// Apply performs op on the real object and on the reference. With check
	// set it compares every observer; a non-nil result is a violation and the
	// instance must not be used further.
	Apply(op O, check bool) *Failure
	// Key returns the canonical state key (two states with equal keys have
	// the same futures). It is only called after a successful Apply.
	Key() string
}

// BFS is an explicit-state breadth-first search over real objects.
type BFS[O any] struct {
	Name   string // harness name used in violation cases
	Config any    // harness configuration, stored in cases
	// Root builds a fresh instance in root state i (0 <= i < NRoots). A root
	// may itself fail its checks.
	Root   func(i int) (Inst[O], *Failure)
	NRoots int
	// Merge selects state merging by Key. Without it (hooks unavailable) the
	// search degrades to exhaustive enumeration of all paths up to MaxDepth.
	Merge    bool
	MaxDepth int // 0 = unbounded (closure); used when !Merge
	HashKeys bool
	// Symmetry, when set, maps a state key to the canonical representative
	// of its orbit (used only for optional symmetry reduction).
	MaxStates int64
	// Workers overrides the run's worker count (0 = use the run's).
	Workers int
}

type bfsNode[O any] struct {
	parent *bfsNode[O]
	op     O
	root   int
	depth  int
}

func (n *bfsNode[O]) path() []O {
	p := make([]O, n.depth)
	for c := n; c.parent != nil; c = c.parent {
		p[c.depth-1] = c.op
	}
	return p
}

// Trace is the JSON form of a BFS case.
type Trace[O any] struct {
	Root int `json:"root"`
	Ops  []O `json:"ops"`
}

// BFSResult summarises a search.
type BFSResult struct {
	States, Transitions int64
	Depth               int
	Exhaustive          bool
	Violations          int64
}

type cand[O any] struct {
	key  string
	node *bfsNode[O]
}

func hashKey(k string) string {
	h := sha256.Sum256([]byte(k))
	return string(h[:16])
}

// Run explores to closure (or to the bounds) and records violations in r.
func (b *BFS[O]) Run(r *Run) BFSResult {
	res := BFSResult{Exhaustive: true}
	seen := map[string]struct{}{}
	cfg := J(b.Config)
	var frontier []*bfsNode[O]
	var trans, nviol int64

	norm := func(k string) string {
		if b.HashKeys {
			return hashKey(k)
		}
		return k
	}

	for i := 0; i < b.NRoots; i++ {
		inst, f := b.safeRoot(i)
		trans++
		if f != nil {
			nviol++
			r.Violation(Case{Harness: b.Name, Config: cfg, Trace: J(Trace[O]{Root: i, Ops: []O{}}), Msg: f.Msg, Step: f.Step})
			continue
		}
		n := &bfsNode[O]{root: i}
		if b.Merge {
			k := norm(inst.Key())
			if _, dup := seen[k]; dup {
				continue
			}
			seen[k] = struct{}{}
		}
		frontier = append(frontier, n)
		res.States++
	}

	depth := 0
	for len(frontier) > 0 {
		if b.MaxDepth > 0 && depth >= b.MaxDepth {
			if b.Merge {
				res.Exhaustive = false
			}
			break
		}
		if r.Expired() {
			res.Exhaustive = false
			r.NotExhaustive(fmt.Sprintf("%s: tier budget reached at depth %d with %d frontier states", b.Name, depth, len(frontier)))
			break
		}
		if r.NumViolations() > MaxStoredViolations {
			res.Exhaustive = false
			r.NotExhaustive(fmt.Sprintf("%s: more than %d violating cases; the search was stopped at depth %d", b.Name, MaxStoredViolations, depth))
			break
		}
		if b.MaxStates > 0 && res.States > b.MaxStates {
			res.Exhaustive = false
			r.NotExhaustive(fmt.Sprintf("%s: state cap %d reached at depth %d", b.Name, b.MaxStates, depth))
			break
		}
		w := r.Workers
		if b.Workers > 0 {
			w = b.Workers
		}
		chunks := w * 8
		if chunks > len(frontier) {
			chunks = len(frontier)
		}
		out := make([][]cand[O], chunks)
		var expired int32
		ParallelFor(chunks, w, func(ci int) {
			lo := ci * len(frontier) / chunks
			hi := (ci + 1) * len(frontier) / chunks
			local := map[string]struct{}{}
			var cs []cand[O]
			var lt, lv int64
			for si, st := range frontier[lo:hi] {
				if si%64 == 0 && r.Expired() {
					atomic.StoreInt32(&expired, 1)
					break
				}
				path := st.path()
				inst := b.rebuild(st.root, path)
				if inst == nil {
					continue // cannot happen: the path was valid when found
				}
				ops := inst.Enabled()
				for oi, op := range ops {
					if oi > 0 {
						inst = b.rebuild(st.root, path)
					}
					lt++
					root, stPath, curOp := st.root, path, op
					done := InFlight(func() Case {
						full := append(append([]O{}, stPath...), curOp)
						return Case{Harness: b.Name, Config: cfg, Trace: J(Trace[O]{Root: root, Ops: full}), Msg: fmt.Sprintf("%v after %d earlier operations", curOp, len(stPath)), Step: len(stPath)}
					})
					f := safeApply(inst, op, true)
					done()
					if f != nil {
						lv++
						full := append(append([]O{}, path...), op)
						r.Violation(Case{Harness: b.Name, Config: cfg, Trace: J(Trace[O]{Root: st.root, Ops: full}), Msg: f.Msg, Step: len(path)})
						continue
					}
					nn := &bfsNode[O]{parent: st, op: op, root: st.root, depth: st.depth + 1}
					if !b.Merge {
						cs = append(cs, cand[O]{node: nn})
						continue
					}
					k := norm(inst.Key())
					if _, dup := seen[k]; dup {
						continue
					}
					if _, dup := local[k]; dup {
						continue
					}
					local[k] = struct{}{}
					cs = append(cs, cand[O]{key: k, node: nn})
				}
			}
			out[ci] = cs
			atomic.AddInt64(&trans, lt)
			atomic.AddInt64(&nviol, lv)
		})
		var next []*bfsNode[O]
		for _, cs := range out {
			for _, c := range cs {
				if b.Merge {
					if _, dup := seen[c.key]; dup {
						continue
					}
					seen[c.key] = struct{}{}
				}
				next = append(next, c.node)
				res.States++
			}
		}
		if expired != 0 {
			res.Exhaustive = false
			r.NotExhaustive(fmt.Sprintf("%s: tier budget reached while expanding depth %d", b.Name, depth))
			frontier = nil
			break
		}
		frontier = next
		depth++
	}
	res.Depth = depth
	res.Transitions = trans
	res.Violations = nviol
	r.AddEval(res.States, res.Transitions, res.Transitions, 0)
	if !res.Exhaustive {
		r.mu.Lock()
		r.stats[r.cur].Exhaustive = false
		r.mu.Unlock()
	}
	return res
}

func (b *BFS[O]) safeRoot(i int) (inst Inst[O], f *Failure) {
	defer func() {
		if p := recover(); p != nil {
			inst, f = nil, Failf(-1, "panic building root %d: %v", i, p)
		}
	}()
	return b.Root(i)
}

func (b *BFS[O]) rebuild(root int, path []O) Inst[O] {
	inst, f := b.safeRoot(root)
	if f != nil {
		return nil
	}
	for _, op := range path {
		if f := safeApply(inst, op, false); f != nil {
			return nil
		}
	}
	return inst
}

func safeApply[O any](inst Inst[O], op O, check bool) (f *Failure) {
	defer func() {
		if p := recover(); p != nil {
			f = Failf(0, "panic in %v: %v", op, p)
		}
	}()
	return inst.Apply(op, check)
}

// Replay re-executes a BFS case with all checks on; it is the Harness.Replay
// implementation for BFS harnesses.
func (b *BFS[O]) Replay(c Case) *Failure {
	var t Trace[O]
	if err := json.Unmarshal(c.Trace, &t); err != nil {
		return Failf(-1, "bad trace: %v", err)
	}
	inst, f := b.safeRoot(t.Root)
	if f != nil {
		f.Step = -1
		return f
	}
	for i, op := range t.Ops {
		if f := safeApply(inst, op, true); f != nil {
			f.Step = i
			return f
		}
	}
	return nil
}

// KeyCounter counts distinct strings concurrently (for "distinct outcomes").
type KeyCounter struct {
	mu sync.Mutex
	m  map[string]int64
}

// Add counts one occurrence of k.
func (c *KeyCounter) Add(k string) {
	c.mu.Lock()
	if c.m == nil {
		c.m = map[string]int64{}
	}
	c.m[k]++
	c.mu.Unlock()
}

// Len is the number of distinct keys seen.
func (c *KeyCounter) Len() int64 {
	c.mu.Lock()
	defer c.mu.Unlock()
	return int64(len(c.m))
}

// Map returns the underlying counts.
func (c *KeyCounter) Map() map[string]int64 {
	c.mu.Lock()
	defer c.mu.Unlock()
	out := map[string]int64{}
	for k, v := range c.m {
		out[k] = v
	}
	return out
}

// LongWalk drives one instance along a fixed pseudo-random walk through its
// own alphabet (the operations Enabled reports, chosen by a linear
// congruential generator with the given seed; weight biases the choice, nil =
// uniform) and applies the harness's full oracle after every step. It is one
// execution, not a search: its purpose is to carry the same oracle to sizes
// the closure search cannot reach. The walk is a function of (root, steps,
// seed, weight) and of the code under test only through Enabled, so a replay
// regenerates it.
func LongWalk[O any](inst Inst[O], steps int, seed uint64, weight func(O) int) (*Failure, []O) {
	x := seed*2654435761 + 1
	var hist []O
	for i := 0; i < steps; i++ {
		ops := inst.Enabled()
		if len(ops) == 0 {
			return nil, hist
		}
		total := 0
		ws := make([]int, len(ops))
		for k, o := range ops {
			w := 1
			if weight != nil {
				w = weight(o)
			}
			ws[k] = w
			total += w
		}
		if total == 0 {
			return nil, hist
		}
		x = x*6364136223846793005 + 1442695040888963407
		r := int((x >> 33) % uint64(total))
		k := 0
		for r >= ws[k] {
			r -= ws[k]
			k++
		}
		o := ops[k]
		hist = append(hist, o)
		if f := Guard(func() *Failure { return inst.Apply(o, true) }); f != nil {
			f.Step = i
			return f, hist
		}
	}
	return nil, hist
}
