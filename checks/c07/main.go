// C07: queue.Queue is a faithful double-ended queue across wrap-around and
// growth. Explicit-state BFS over real queues (E1): state key = (head, n,
// len(vs), cap(vs)) read through the hook; every transition is also executed
// on a twin whose dead slots were poisoned, which justifies leaving dead slot
// contents out of the key.
package main

import (
	"fmt"
	"sync/atomic"
	"time"

	"verif/mc"

	"github.com/creachadair/mds/queue"
)

type op struct {
	K string `json:"k"` // add push pop poplast clear
}

func (o op) String() string { return o.K }

type cfg struct {
	MaxLen int   `json:"max_len"`
	Roots  []int `json:"roots"` // -2 zero value, -1 New, n>=0 NewSize(n)
}

const poisonVal = -777

type counters struct {
	rotGrowAdd, rotGrowPush, growAdd, growPush, wrapBelow0, wrapAbove, resetEmpty, poisonDiffs int64
}

type inst struct {
	c             *cfg
	q             *queue.Queue[int]
	twin          *queue.Queue[int] // same history, dead slots poisoned before each step
	ref           []int
	next          int
	cnt           *counters
	emptied, used bool
}

func newQ(root int) *queue.Queue[int] {
	switch {
	case root == -2:
		return new(queue.Queue[int])
	case root == -1:
		return queue.New[int]()
	default:
		return queue.NewSize[int](root)
	}
}

func (s *inst) Enabled() []op {
	ops := []op{{"pop"}, {"poplast"}, {"clear"}}
	if len(s.ref) < s.c.MaxLen {
		ops = append([]op{{"add"}, {"push"}}, ops...)
	}
	return ops
}

func (s *inst) Key() string {
	h, n, l, c := fields(s.q)
	return fmt.Sprintf("%d,%d,%d,%d,%v %s", h, n, l, c, s.emptied, mc.Fingerprint(s.q))
}

func (s *inst) Apply(o op, check bool) *mc.Failure {
	if check && s.twin != nil {
		poison(s.twin, poisonVal)
	}
	for _, q := range []*queue.Queue[int]{s.q, s.twin} {
		if q == nil {
			continue
		}
		isMain := q == s.q
		h0, n0, l0, _ := fields(q)
		switch o.K {
		case "add":
			q.Add(s.next)
			if check && isMain && h0 >= 0 {
				if n0 == l0 {
					if h0 > 0 {
						atomic.AddInt64(&s.cnt.rotGrowAdd, 1)
					} else {
						atomic.AddInt64(&s.cnt.growAdd, 1)
					}
				} else if h0+n0 >= l0 {
					atomic.AddInt64(&s.cnt.wrapAbove, 1)
				}
			}
		case "push":
			q.Push(s.next)
			if check && isMain && h0 >= 0 {
				if n0 == l0 {
					if h0 > 0 {
						atomic.AddInt64(&s.cnt.rotGrowPush, 1)
					} else {
						atomic.AddInt64(&s.cnt.growPush, 1)
					}
				} else if h0 == 0 {
					atomic.AddInt64(&s.cnt.wrapBelow0, 1)
				}
			}
		case "pop":
			v, ok := q.Pop()
			if check {
				if len(s.ref) == 0 {
					if ok || v != 0 {
						return mc.Failf(0, "Pop on empty = (%d,%v), want (0,false)", v, ok)
					}
				} else if !ok || v != s.ref[0] {
					return mc.Failf(0, "Pop = (%d,%v), want (%d,true); ref=%v main=%v", v, ok, s.ref[0], s.ref, isMain)
				}
				if isMain && n0 == 1 && h0 > 0 {
					atomic.AddInt64(&s.cnt.resetEmpty, 1)
				}
			}
		case "poplast":
			v, ok := q.PopLast()
			if check {
				if len(s.ref) == 0 {
					if ok || v != 0 {
						return mc.Failf(0, "PopLast on empty = (%d,%v), want (0,false)", v, ok)
					}
				} else if !ok || v != s.ref[len(s.ref)-1] {
					return mc.Failf(0, "PopLast = (%d,%v), want (%d,true); ref=%v main=%v", v, ok, s.ref[len(s.ref)-1], s.ref, isMain)
				}
				if isMain && n0 == 1 && h0 > 0 {
					atomic.AddInt64(&s.cnt.resetEmpty, 1)
				}
			}
		case "clear":
			q.Clear()
		default:
			return mc.Failf(0, "unknown op %q", o.K)
		}
	}
	switch o.K {
	case "add":
		s.ref = append(s.ref, s.next)
		s.next++
	case "push":
		s.ref = append([]int{s.next}, s.ref...)
		s.next++
	case "pop":
		if len(s.ref) > 0 {
			s.ref = s.ref[1:]
		}
	case "poplast":
		if len(s.ref) > 0 {
			s.ref = s.ref[:len(s.ref)-1]
		}
	case "clear":
		s.ref = nil
	}
	if len(s.ref) > 0 {
		s.used = true
	} else if s.used {
		s.emptied = true
	}
	if !check {
		return nil
	}
	if f := observe(s.q, s.ref, "queue"); f != nil {
		return f
	}
	if s.twin != nil {
		if f := observe(s.twin, s.ref, "poisoned twin"); f != nil {
			atomic.AddInt64(&s.cnt.poisonDiffs, 1)
			return f
		}
	}
	return nil
}

// observe compares every observer of the property with the reference.
func observe(q *queue.Queue[int], ref []int, who string) *mc.Failure {
	n := len(ref)
	if q.Len() != n {
		return mc.Failf(0, "%s: Len=%d want %d", who, q.Len(), n)
	}
	if q.IsEmpty() != (n == 0) {
		return mc.Failf(0, "%s: IsEmpty=%v with %d elements", who, q.IsEmpty(), n)
	}
	wantFront := 0
	if n > 0 {
		wantFront = ref[0]
	}
	if got := q.Front(); got != wantFront {
		return mc.Failf(0, "%s: Front=%d want %d", who, got, wantFront)
	}
	for i := -n - 2; i <= n+2; i++ {
		v, ok := q.Peek(i)
		j := i
		if j < 0 {
			j += n
		}
		if j < 0 || j >= n {
			if ok || v != 0 {
				return mc.Failf(0, "%s: Peek(%d)=(%d,%v) want (0,false), ref=%v", who, i, v, ok, ref)
			}
		} else if !ok || v != ref[j] {
			return mc.Failf(0, "%s: Peek(%d)=(%d,%v) want (%d,true), ref=%v", who, i, v, ok, ref[j], ref)
		}
	}
	sl := q.Slice()
	if n == 0 {
		if sl != nil {
			return mc.Failf(0, "%s: Slice of empty queue = %v, want nil", who, sl)
		}
	} else if !eq(sl, ref) {
		return mc.Failf(0, "%s: Slice=%v want %v", who, sl, ref)
	}
	// the result belongs to the caller: writing to it must not reach the queue
	for i := range sl {
		sl[i] = -31337
	}
	if n > 0 {
		if again := q.Slice(); !eq(again, ref) {
			return mc.Failf(0, "%s: Slice returns a view of the queue's buffer: after the caller overwrote the result the queue holds %v, want %v", who, again, ref)
		}
	}
	// Each, stopped after j items for every j, and run to completion.
	for stop := 0; stop <= n+1; stop++ {
		var got []int
		q.Each(func(v int) bool {
			got = append(got, v)
			return len(got) < stop || stop > n
		})
		want := ref
		if stop >= 1 && stop <= n {
			want = ref[:stop]
		} else if stop == 0 && n > 0 {
			want = ref[:1] // f is called once and returns false
		}
		if !eq(got, want) {
			return mc.Failf(0, "%s: Each(stop after %d)=%v want %v", who, stop, got, want)
		}
	}
	return nil
}

// observeLight is observe for long queues: Peek at the ends, around powers of
// two and out of range instead of everywhere, Each in full and stopped at the
// first and the last item.
func observeLight(q *queue.Queue[int], ref []int, who string) *mc.Failure {
	n := len(ref)
	if n <= 40 {
		return observe(q, ref, who)
	}
	if q.Len() != n || q.IsEmpty() {
		return mc.Failf(0, "%s: Len=%d IsEmpty=%v want %d elements", who, q.Len(), q.IsEmpty(), n)
	}
	if got := q.Front(); got != ref[0] {
		return mc.Failf(0, "%s: Front=%d want %d", who, got, ref[0])
	}
	for i := -n - 2; i <= n+2; i++ {
		if a := max(i, -i); a > 3 && a < n-3 && a%16 > 1 && a%16 < 15 {
			continue
		}
		v, ok := q.Peek(i)
		j := i
		if j < 0 {
			j += n
		}
		if j < 0 || j >= n {
			if ok || v != 0 {
				return mc.Failf(0, "%s: Peek(%d)=(%d,%v) want (0,false) with %d elements", who, i, v, ok, n)
			}
		} else if !ok || v != ref[j] {
			return mc.Failf(0, "%s: Peek(%d)=(%d,%v) want (%d,true) with %d elements", who, i, v, ok, ref[j], n)
		}
	}
	if sl := q.Slice(); !eq(sl, ref) {
		return mc.Failf(0, "%s: Slice (%d elements) differs from the reference (%d elements): %.200s want %.200s", who, len(sl), n, fmt.Sprint(sl), fmt.Sprint(ref))
	}
	for _, stop := range []int{1, n, n + 1} {
		var got []int
		q.Each(func(v int) bool { got = append(got, v); return len(got) < stop })
		if !eq(got, ref[:min(stop, n)]) {
			return mc.Failf(0, "%s: Each(stop after %d) yields %d items, first %.100s", who, stop, len(got), fmt.Sprint(got))
		}
	}
	return nil
}

// qlong is one fixed history: a queue preallocated with Cap slots, the head
// moved to offset Head, filled exactly (by Add or by Push), then grown by one
// more element, extended, and drained from both ends.
type qlong struct {
	Cap  int    `json:"cap"`
	Head int    `json:"head"`
	Via  string `json:"via"` // add | push
}

func checkQLong(l qlong) *mc.Failure {
	return mc.GuardTL("queue-long", l, 20*time.Minute, func() *mc.Failure {
		q := queue.NewSize[int](l.Cap)
		var ref []int
		next, step := 1, 0
		fail := func(f *mc.Failure, what string) *mc.Failure {
			f.Step = step
			f.Msg = fmt.Sprintf("NewSize(%d), head moved to %d, filled by %s; call %d (%s): %s", l.Cap, l.Head, l.Via, step, what, f.Msg)
			return f
		}
		add := func() { q.Add(next); ref = append(ref, next); next++; step++ }
		push := func() { q.Push(next); ref = append([]int{next}, ref...); next++; step++ }
		pop := func(last bool) *mc.Failure {
			step++
			var v, w int
			var ok bool
			if last {
				v, ok = q.PopLast()
				w = ref[len(ref)-1]
				ref = ref[:len(ref)-1]
			} else {
				v, ok = q.Pop()
				w = ref[0]
				ref = ref[1:]
			}
			if !ok || v != w {
				return mc.Failf(0, "Pop/PopLast(last=%v) = (%d,%v), want (%d,true)", last, v, ok, w)
			}
			return nil
		}
		// move the head: Head+1 elements in, Head out (one element stays, so
		// the head is not reset)
		for i := 0; i <= l.Head; i++ {
			add()
		}
		for i := 0; i < l.Head; i++ {
			if f := pop(false); f != nil {
				return fail(f, "Pop while moving the head")
			}
		}
		for len(ref) < l.Cap {
			if l.Via == "push" {
				push()
			} else {
				add()
			}
		}
		if f := observeLight(q, ref, "exactly full"); f != nil {
			return fail(f, "fill")
		}
		if l.Via == "push" {
			push()
		} else {
			add()
		}
		if f := observeLight(q, ref, "after growing"); f != nil {
			return fail(f, "the element that makes the buffer grow")
		}
		for i := 0; i < 5; i++ {
			push()
			add()
		}
		if f := observeLight(q, ref, "after growing and 10 more"); f != nil {
			return fail(f, "Push/Add after growing")
		}
		for i := 0; len(ref) > 0; i++ {
			if f := pop(i%3 == 1); f != nil {
				return fail(f, "drain")
			}
			if len(ref) == l.Cap/2 {
				if f := observeLight(q, ref, "half drained"); f != nil {
					return fail(f, "drain")
				}
			}
		}
		if f := observe(q, nil, "drained"); f != nil {
			return fail(f, "drain")
		}
		return nil
	})
}

func eq(a, b []int) bool {
	if len(a) != len(b) {
		return false
	}
	for i := range a {
		if a[i] != b[i] {
			return false
		}
	}
	return true
}

func makeBFS(c *cfg, cnt *counters, hooks bool, depth int) *mc.BFS[op] {
	return &mc.BFS[op]{
		Name: "queue-bfs", Config: c, NRoots: len(c.Roots), Merge: hooks, MaxDepth: depth,
		Root: func(i int) (mc.Inst[op], *mc.Failure) {
			s := &inst{c: c, q: newQ(c.Roots[i]), cnt: cnt}
			if hooks {
				s.twin = newQ(c.Roots[i])
			}
			if f := observe(s.q, nil, "fresh queue"); f != nil {
				return nil, f
			}
			return s, nil
		},
	}
}

func main() {
	roots := []int{-2, -1, 0, 1, 2, 3, 4, 5, 6}
	var cnt counters
	mc.Main("C07", mc.Harness{
		Name: "queue-bfs",
		Explore: func(r *mc.Run) {
			c := &cfg{MaxLen: mc.Pick(r, 72, 200), Roots: roots}
			depth := 0
			if !r.Hooks {
				depth = mc.Pick(r, 9, 11)
				c.MaxLen = depth
			}
			b := makeBFS(c, &cnt, r.Hooks, depth)
			res := b.Run(r)
			if r.Hooks {
				// every history to a small depth without merging (hidden state no key shows)
				d := mc.Pick(r, 7, 9)
				flat := &cfg{MaxLen: d, Roots: []int{-2, -1, 0, 1, 2, 3}}
				res2 := makeBFS(flat, &cnt, false, d).Run(r)
				r.Bound("unmerged_configuration", fmt.Sprintf("every history of Add/Push/Pop/PopLast/Clear up to depth %d from 6 initial capacities, no state merging: %d histories", d, res2.States))
			}
			r.Bound("max_len", c.MaxLen)
			r.Bound("roots", "zero value, New, NewSize(0..6)")
			r.Bound("depth_reached", res.Depth)
			if !r.Hooks {
				r.Bound("fallback_full_enumeration_depth", depth)
			}
			r.Count("rotate_then_grow_via_add", cnt.rotGrowAdd)
			r.Count("rotate_then_grow_via_push", cnt.rotGrowPush)
			r.Count("grow_head0_via_add", cnt.growAdd)
			r.Count("grow_head0_via_push", cnt.growPush)
			r.Count("push_wraps_head_below_0", cnt.wrapBelow0)
			r.Count("add_wraps_past_end", cnt.wrapAbove)
			r.Count("reset_head_on_empty", cnt.resetEmpty)
			nt := cnt.rotGrowAdd + cnt.rotGrowPush + cnt.wrapBelow0 + cnt.wrapAbove
			r.AddEval(0, 0, 0, nt)
			r.Rule("BFS to closure over Add/Push/Pop/PopLast/Clear from 9 initial capacities; states merged by (head,n,len,cap); " +
				"non-trivial = distinct (state,op) transitions that wrap the ring or rotate-then-grow")
			r.Assume("queue.Queue never inspects element values (parametric in T), so fresh integer values are representative")
			r.Assume("dead slots are not part of the state: every transition is re-run on a twin with poisoned dead slots and must observe identically")
			r.Sample(map[string]any{"root": "NewSize(3)", "ops": []string{"add", "add", "add", "pop", "add", "push→rotate+grow"}})
		},
		Replay: func(c mc.Case) *mc.Failure {
			var cf cfg
			if err := mc.Unmarshal(c.Config, &cf); err != nil {
				return mc.Failf(-1, "bad config: %v", err)
			}
			var local counters
			return makeBFS(&cf, &local, mc.HooksEnabled, 0).Replay(c)
		},
	}, mc.Harness{
		Name: "queue-long", HangLimit: 20 * time.Minute,
		Explore: func(r *mc.Run) {
			var cases []qlong
			var caps []int
			for c := 1; c <= 40; c++ {
				caps = append(caps, c)
			}
			caps = append(caps, mc.Pick(r, []int{63, 64, 65, 66, 67, 100, 127, 128, 129, 130, 200, 255, 256, 257, 300, 511, 512, 513, 1023, 1024, 1025}, []int{63, 64, 65, 66, 67, 100, 127, 128, 129, 130, 200, 255, 256, 257, 300, 511, 512, 513, 1000, 1023, 1024, 1025, 2047, 2048, 2049, 4095, 4096, 4097, 16385})...)
			for _, c := range caps {
				for h := 0; h < c; h++ {
					if c > 130 && h > 2 && h < c-2 && h != c/2 && h != c/2-1 && h != c/2+1 && h%32 > 1 && h%32 < 31 {
						continue // large buffers: head at the ends, the middle and around multiples of 32
					}
					cases = append(cases, qlong{c, h, "add"}, qlong{c, h, "push"})
				}
			}
			mc.ParallelFor(len(cases), r.Workers, func(i int) {
				if f := checkQLong(cases[i]); f != nil {
					r.Violation(mc.Case{Harness: "queue-long", Trace: mc.J(cases[i]), Msg: f.Msg, Step: f.Step})
				}
			})
			n := int64(len(cases))
			r.AddEval(n, n, n, n)
			r.Bound("capacities", fmt.Sprint(caps))
			r.Rule("for each preallocated capacity and each head offset (all offsets up to capacity 130, a boundary subset beyond): move the head, fill the buffer exactly by Add or by Push, add the element that makes it grow (rotate-then-grow), ten more from both ends, drain from both ends; observers against the reference sequence at each stage and every popped value")
			r.Sample(qlong{66, 33, "add"})
		},
		Replay: func(c mc.Case) *mc.Failure {
			var l qlong
			if err := mc.Unmarshal(c.Trace, &l); err != nil {
				return mc.Failf(-1, "bad trace: %v", err)
			}
			return checkQLong(l)
		},
	})
}
