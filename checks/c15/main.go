// C15: shell.Quote/Join protect every string; Split inverts Join.
// E4: every byte value, every short string over all 256 bytes and over the
// shell-special alphabet, lists from a pool, call sequences (pooled buffers),
// an independent POSIX unquoting scanner, and real shells as second verdict.
package main

import (
	"fmt"
	"strings"
	"sync/atomic"

	"verif/lib/shellh"
	"verif/mc"

	"github.com/creachadair/mds/shell"
)

type wcase struct {
	S mc.BStr `json:"s"`
}

func eqs(a, b []string) bool {
	if len(a) != len(b) {
		return false
	}
	for i := range a {
		if a[i] != b[i] {
			return false
		}
	}
	return true
}

func checkWord(s string) *mc.Failure {
	return mc.GuardT("words", wcase{mc.BStr(s)}, func() *mc.Failure {
		q := shell.Quote(s)
		got, ok := shell.Split(q)
		if !ok || len(got) != 1 || got[0] != s {
			return mc.Failf(0, "Split(Quote(%q)) = %q, %v (Quote gave %q); want the single field back", s, got, ok, q)
		}
		un, err := shellh.Unquote(q)
		if err != nil {
			return mc.Failf(0, "Quote(%q) = %q is not safe for a POSIX shell: %v", s, q, err)
		}
		if un != s {
			return mc.Failf(0, "Quote(%q) = %q denotes %q to a POSIX shell", s, q, un)
		}
		if j := shell.Join([]string{s}); j != q {
			return mc.Failf(0, "Join([%q]) = %q differs from Quote = %q", s, j, q)
		}
		return nil
	})
}

type lcase struct {
	SS []mc.BStr `json:"ss"`
}

func (l lcase) strs() []string {
	out := make([]string, len(l.SS))
	for i, s := range l.SS {
		out[i] = string(s)
	}
	return out
}

func listCase(ss []string) lcase {
	var l lcase
	for _, s := range ss {
		l.SS = append(l.SS, mc.BStr(s))
	}
	return l
}

func checkList(ss []string) *mc.Failure {
	return mc.GuardT("lists", listCase(ss), func() *mc.Failure {
		j := shell.Join(ss)
		got, ok := shell.Split(j)
		if !ok || !eqs(got, ss) && !(len(ss) == 0 && len(got) == 0) {
			return mc.Failf(0, "Split(Join(%q)) = %q, %v (Join gave %q)", ss, got, ok, j)
		}
		// Join is Quote of each element separated by single spaces.
		var qs []string
		for _, s := range ss {
			qs = append(qs, shell.Quote(s))
		}
		if want := strings.Join(qs, " "); j != want {
			return mc.Failf(0, "Join(%q) = %q, want the quoted elements joined by spaces %q", ss, j, want)
		}
		return nil
	})
}

// A call is one library call with its argument; seq checks that a sequence of
// calls gives the same results as each call made on its own (the pooled
// buffers and scanner are state).
type call struct {
	Fn  string    `json:"fn"` // quote join split
	Arg []mc.BStr `json:"arg"`
}

func (c call) run() string {
	var a []string
	for _, s := range c.Arg {
		a = append(a, string(s))
	}
	switch c.Fn {
	case "quote":
		return shell.Quote(a[0])
	case "join":
		return shell.Join(a)
	default:
		f, ok := shell.Split(a[0])
		return fmt.Sprintf("%q %v", f, ok)
	}
}

func (c call) expect() string {
	var a []string
	for _, s := range c.Arg {
		a = append(a, string(s))
	}
	switch c.Fn {
	case "quote", "join":
		// expected from the reference: each element quoted so that Unquote gives it back
		return ""
	default:
		toks, ok, _ := shellh.Split(a[0])
		t := make([]string, len(toks))
		for i, k := range toks {
			t[i] = k.Text
		}
		return fmt.Sprintf("%q %v", t, ok)
	}
}

type seqCase struct {
	Calls []call `json:"calls"`
}

func checkSeq(sc seqCase) *mc.Failure {
	return mc.GuardT("call-sequences", sc, func() *mc.Failure {
		for round := 0; round < 3; round++ {
			var results []string
			for _, c := range sc.Calls {
				results = append(results, c.run())
			}
			for i, c := range sc.Calls {
				switch c.Fn {
				case "split":
					if results[i] != c.expect() {
						return mc.Failf(i, "call %d of %v: Split result %s, reference %s", i, sc.Calls, results[i], c.expect())
					}
				case "quote":
					if un, err := shellh.Unquote(results[i]); err != nil || un != string(c.Arg[0]) {
						return mc.Failf(i, "call %d of %v: Quote result %q does not denote its argument (%v)", i, sc.Calls, results[i], err)
					}
				case "join":
					parts, ok, _ := shellh.Split(results[i])
					if !ok || len(parts) != len(c.Arg) {
						return mc.Failf(i, "call %d of %v: Join result %q splits into %d fields", i, sc.Calls, results[i], len(parts))
					}
					for k, p := range parts {
						if p.Text != string(c.Arg[k]) {
							return mc.Failf(i, "call %d of %v: Join result %q, field %d is %q", i, sc.Calls, results[i], k, p.Text)
						}
					}
				}
			}
		}
		return nil
	})
}

func allStrings(alpha string, maxLen int) []string {
	out := []string{""}
	lo := 0
	for l := 1; l <= maxLen; l++ {
		hi := len(out)
		for _, p := range out[lo:hi] {
			for i := 0; i < len(alpha); i++ {
				out = append(out, p+alpha[i:i+1])
			}
		}
		lo = hi
	}
	return out
}

// special is every byte of the POSIX lists plus further suspects.
const special = shellh.MustQuote + shellh.MayQuote + "!{}^,:@]-a0\x7f\x80\x81\x88\xff\r\x00\x01"

func main() {
	mc.Main("C15",
		mc.Harness{
			Name: "words",
			Explore: func(r *mc.Run) {
				var all256 string
				for b := 0; b < 256; b++ {
					all256 += string([]byte{byte(b)})
				}
				sets := []struct {
					alpha string
					n     int
				}{{all256, mc.Pick(r, 2, 3)}, {special, mc.Pick(r, 3, 4)}, {"' a", mc.Pick(r, 8, 10)}, {"'\\\" \n$a", mc.Pick(r, 6, 7)}}
				var evals, needq int64
				for _, st := range sets {
					// enumerate without materialising the (large) list
					total := 1
					for i := 0; i < st.n; i++ {
						total = total*len(st.alpha) + 1
					}
					// strings of length L are indexed in base len(alpha)
					for L := 0; L <= st.n; L++ {
						count := 1
						for i := 0; i < L; i++ {
							count *= len(st.alpha)
						}
						mc.ParallelFor(r.Workers*4, r.Workers, func(w int) {
							buf := make([]byte, L)
							var ev, nq int64
							for idx := w; idx < count; idx += r.Workers * 4 {
								x := idx
								for k := L - 1; k >= 0; k-- {
									buf[k] = st.alpha[x%len(st.alpha)]
									x /= len(st.alpha)
								}
								s := string(buf)
								if f := checkWord(s); f != nil {
									r.Violation(mc.Case{Harness: "words", Trace: mc.J(wcase{mc.BStr(s)}), Msg: f.Msg})
								}
								ev++
								if strings.ContainsAny(s, shellh.MustQuote+shellh.MayQuote) {
									nq++
								}
							}
							atomic.AddInt64(&evals, ev)
							atomic.AddInt64(&needq, nq)
						})
					}
					_ = total
					r.Bound(fmt.Sprintf("alphabet_of_%d_bytes", len(st.alpha)), fmt.Sprintf("all strings up to length %d", st.n))
				}
				// long words: buffer growth in the pooled buffer, the scanner's read buffer
				var nlong int64
				for _, unit := range []string{"a", "'", " ", "$", "\x80", "ab'", "' ", "\\'", "x y"} {
					for _, n := range []int{100, 1365, 4095, 4096, 4097, 10000} {
						w := strings.Repeat(unit, n/len(unit)+1)[:n]
						if f := checkWord(w); f != nil {
							f.Msg = fmt.Sprintf("long word (%d bytes of %q): %.200s", n, unit, f.Msg)
							r.Violation(mc.Case{Harness: "words", Trace: mc.J(wcase{mc.BStr(w)}), Msg: f.Msg})
						}
						if f := checkList([]string{w, "", w[:n/2]}); f != nil {
							f.Msg = fmt.Sprintf("list with long words (%d bytes of %q): %.200s", n, unit, f.Msg)
							r.Violation(mc.Case{Harness: "lists", Trace: mc.J(listCase([]string{w, "", w[:n/2]})), Msg: f.Msg})
						}
						nlong += 2
					}
				}
				r.Count("long_words", nlong)
				evals += nlong
				r.AddEval(evals, evals, evals, needq)
				r.Rule("Quote on every string over (a) all 256 byte values, (b) the POSIX must-quote and may-need-quoting lists plus further suspect bytes, (c) the classes the code distinguishes; Split(Quote(s)) = [s]; an independent scanner proves no listed byte is left unquoted and that a POSIX shell reads back s; non-trivial = strings containing a listed byte")
				r.Sample(wcase{"it's a $test"})
				// Real shells evaluate the quoted words (no NUL: a shell cannot hold it).
				words := allStrings(strings.ReplaceAll(special, "\x00", ""), 2)
				for b := 1; b < 256; b++ {
					words = append(words, string([]byte{byte(b)}), "x"+string([]byte{byte(b)})+"y")
				}
				quoted := make([]string, len(words))
				for i, w := range words {
					quoted[i] = shell.Quote(w)
				}
				for name, argv := range shellh.Shells() {
					got, err := shellh.EvalWords(argv, quoted)
					if err != nil || len(got) != len(words) {
						r.Extra("shell_"+name+"_error", fmt.Sprintf("%v (%d of %d words)", err, len(got), len(words)))
						// A shell that chokes on the script as a whole: find the word by bisection-free retry.
						for i, w := range words {
							g, e := shellh.EvalWords(argv, quoted[i:i+1])
							if e != nil || len(g) != 1 || g[0] != w {
								r.Violation(mc.Case{Harness: "words-shell", Trace: mc.J(wcase{mc.BStr(w)}), Msg: fmt.Sprintf("%s evaluating Quote(%q) = %q obtains %q (%v)", name, w, quoted[i], g, e)})
							}
						}
						continue
					}
					dis := 0
					for i, w := range words {
						if got[i] != w {
							dis++
							r.Violation(mc.Case{Harness: "words-shell", Trace: mc.J(wcase{mc.BStr(w)}), Msg: fmt.Sprintf("%s evaluating Quote(%q) = %q obtains %q", name, w, quoted[i], got[i])})
						}
					}
					r.Count("shell_"+name+"_words", int64(len(words)))
					r.Count("shell_"+name+"_disagreements", int64(dis))
				}
			},
			Replay: func(c mc.Case) *mc.Failure {
				var w wcase
				if err := mc.Unmarshal(c.Trace, &w); err != nil {
					return mc.Failf(-1, "bad trace: %v", err)
				}
				return checkWord(string(w.S))
			},
		},
		mc.Harness{
			Name:    "words-shell",
			Explore: func(r *mc.Run) {},
			Replay: func(c mc.Case) *mc.Failure {
				var w wcase
				if err := mc.Unmarshal(c.Trace, &w); err != nil {
					return mc.Failf(-1, "bad trace: %v", err)
				}
				for name, argv := range shellh.Shells() {
					g, e := shellh.EvalWords(argv, []string{shell.Quote(string(w.S))})
					if e != nil || len(g) != 1 || g[0] != string(w.S) {
						return mc.Failf(0, "%s evaluating Quote(%q) obtains %q (%v)", name, string(w.S), g, e)
					}
				}
				return nil
			},
		},
		mc.Harness{
			Name: "lists",
			Explore: func(r *mc.Run) {
				pool := []string{"", "a", "a b", "'", "''", "it's", "\\", "\"x\"", "$HOME", "a\nb", " ", "*", "x=y", "\t"}
				var evals, withEmpty int64
				idx := mc.AllSeqs(len(pool), mc.Pick(r, 3, 4))
				mc.ParallelFor(len(idx), r.Workers, func(i int) {
					ss := make([]string, len(idx[i]))
					var bs []mc.BStr
					hasEmpty := false
					for k, v := range idx[i] {
						ss[k] = pool[v]
						bs = append(bs, mc.BStr(pool[v]))
						hasEmpty = hasEmpty || pool[v] == ""
					}
					if f := checkList(ss); f != nil {
						r.Violation(mc.Case{Harness: "lists", Trace: mc.J(lcase{bs}), Msg: f.Msg})
					}
					atomic.AddInt64(&evals, 1)
					if hasEmpty {
						atomic.AddInt64(&withEmpty, 1)
					}
				})
				if f := checkList(nil); f != nil {
					r.Violation(mc.Case{Harness: "lists", Trace: mc.J(lcase{}), Msg: "nil list: " + f.Msg})
				}
				r.AddEval(evals, evals, evals, withEmpty)
				r.Rule("Join/Split round trip on every list up to the length bound over a 14-string pool (empty string, quotes, blanks, metacharacters, newline) and the empty list; non-trivial = lists containing an empty string")
				r.Sample(lcase{[]mc.BStr{"a", "", "it's"}})
			},
			Replay: func(c mc.Case) *mc.Failure {
				var l lcase
				if err := mc.Unmarshal(c.Trace, &l); err != nil {
					return mc.Failf(-1, "bad trace: %v", err)
				}
				return checkList(l.strs())
			},
		},
		mc.Harness{
			Name: "call-sequences",
			Explore: func(r *mc.Run) {
				long := strings.Repeat("long 'arg' ", 600)
				args := []string{"", "a", "it's", "a b", "'unterminated", "\"open \\", long, "x\\"}
				var calls []call
				for _, a := range args {
					calls = append(calls, call{"quote", []mc.BStr{mc.BStr(a)}}, call{"split", []mc.BStr{mc.BStr(a)}},
						call{"join", []mc.BStr{mc.BStr(a), "z z"}})
				}
				calls = append(calls, call{"join", nil})
				var evals int64
				n := len(calls)
				total := n * n
				if !r.Quick() {
					total = n * n * n
				}
				mc.ParallelFor(total, r.Workers, func(i int) {
					sc := seqCase{[]call{calls[i%n], calls[(i/n)%n]}}
					if !r.Quick() {
						sc.Calls = append(sc.Calls, calls[i/(n*n)])
					}
					if f := checkSeq(sc); f != nil {
						r.Violation(mc.Case{Harness: "call-sequences", Trace: mc.J(sc), Msg: f.Msg, Step: f.Step})
					}
					atomic.AddInt64(&evals, 1)
				})
				r.AddEval(evals, evals, evals, evals)
				r.Rule("all ordered pairs (thorough: triples) of Quote/Join/Split calls over arguments chosen to leave the pooled buffer and scanner dirty (long, unterminated, empty); every call's result must be what the call gives on its own")
			},
			Replay: func(c mc.Case) *mc.Failure {
				var s seqCase
				if err := mc.Unmarshal(c.Trace, &s); err != nil {
					return mc.Failf(-1, "bad trace: %v", err)
				}
				return checkSeq(s)
			},
		},
	)
}
