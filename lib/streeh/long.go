package streeh

import (
	"fmt"
	"sort"

	"verif/mc"

	"github.com/creachadair/mds/stree"
)

// LongCfg describes one family of long adversarial histories (E2): a default
// history (fill in one order, drain in another, refill) and a menu of
// single-step deviations.
type LongCfg struct {
	Beta   int    `json:"beta"`
	N      int    `json:"n"`
	Fill   string `json:"fill"`  // asc desc zigzag inside
	Drain  string `json:"drain"` // asc desc zigzag inside
	Depth  bool   `json:"depth_oracle"`
	Set    bool   `json:"set_oracle"`
	Cursor bool   `json:"cursor_oracle"`
}

// order lists 0..n-1 in the named order.
func order(name string, n int) []int {
	out := make([]int, 0, n)
	switch name {
	case "asc":
		for i := 0; i < n; i++ {
			out = append(out, i)
		}
	case "desc":
		for i := n - 1; i >= 0; i-- {
			out = append(out, i)
		}
	case "zigzag":
		for lo, hi := 0, n-1; lo <= hi; lo, hi = lo+1, hi-1 {
			out = append(out, lo)
			if hi != lo {
				out = append(out, hi)
			}
		}
	case "inside":
		m := n / 2
		out = append(out, m)
		for d := 1; len(out) < n; d++ {
			if m-d >= 0 {
				out = append(out, m-d)
			}
			if m+d < n {
				out = append(out, m+d)
			}
		}
	}
	return out
}

// LongStats are coverage counters of one execution family.
type LongStats struct {
	Steps, ShapeRebuilds, DeleteRebuilds, MinSlack int64
}

const menuSize = 12

// LongBody returns the body of the choice tree for cfg. Keys of the default
// history are multiples of 4 so that "just below/above" keys exist.
func LongBody(cfg LongCfg, st *LongStats) func(c *mc.Chooser) *mc.Failure {
	fill := order(cfg.Fill, cfg.N)
	drain := order(cfg.Drain, cfg.N)
	refill := order("asc", cfg.N/3+2)
	type step struct {
		k   string
		key int
	}
	var plan []step
	for _, i := range fill {
		plan = append(plan, step{"add", 4 * i})
	}
	for _, i := range drain {
		plan = append(plan, step{"remove", 4 * i})
	}
	for _, i := range refill {
		plan = append(plan, step{"add", 4 * i})
	}
	return func(c *mc.Chooser) *mc.Failure {
		n := new(int64)
		t := stree.New(cfg.Beta, cmpFor(n))
		var ref []int // sorted keys
		tag := map[int]int{}
		P := 0
		allowedFor, allowed := -1, 0
		oracle := NewDepthOracle(cfg.Beta)
		has := func(k int) (int, bool) {
			i := sort.SearchInts(ref, k)
			return i, i < len(ref) && ref[i] == k
		}
		for si, sp := range plan {
			alt := c.Choose(1+menuSize, false)
			o := Op{K: sp.k, A: sp.key}
			if alt > 0 {
				var mn, md, mx int
				if len(ref) > 0 {
					mn, md, mx = ref[0], ref[len(ref)/2], ref[len(ref)-1]
				}
				switch alt {
				case 1:
					o = Op{K: "add", A: mn - 1}
				case 2:
					o = Op{K: "add", A: mn + 1}
				case 3:
					o = Op{K: "add", A: md - 1}
				case 4:
					o = Op{K: "add", A: md + 1}
				case 5:
					o = Op{K: "add", A: mx + 1}
				case 6:
					o = Op{K: "remove", A: mn}
				case 7:
					o = Op{K: "remove", A: mx}
				case 8:
					o = Op{K: "remove", A: md}
				case 9: // remove the root
					if rc := t.Root(); rc.Valid() {
						o = Op{K: "remove", A: rc.Key().K}
					} else {
						o = Op{K: "remove", A: 0}
					}
				case 10:
					o = Op{K: "replace", A: sp.key, T: 1}
				case 11: // continue on a clone
					t = t.Clone()
				case 12:
					o = Op{K: "add", A: sp.key, T: 1} // Add of a possibly present key with another tag
				}
			}
			i, present := has(o.A)
			var got, want bool
			stepDone := mc.InFlight(func() mc.Case {
				return mc.Case{Harness: "tree-long", Config: mc.J(cfg), Trace: mc.J([]mc.Dev{}), Msg: fmt.Sprintf("%v at step %d of the history (deviations not recorded)", o, si), Step: si}
			})
			switch o.K {
			case "add":
				got = t.Add(Elem{o.A, o.T})
				want = !present
				if want {
					tag[o.A] = o.T
				}
			case "replace":
				got = t.Replace(Elem{o.A, o.T})
				want = !present
				tag[o.A] = o.T
			case "remove":
				got = t.Remove(Elem{K: o.A})
				want = present
			}
			stepDone()
			if got != want {
				return mc.Failf(si, "%v returned %v, want %v", o, got, want)
			}
			switch {
			case o.K == "remove" && present:
				ref = append(ref[:i:i], ref[i+1:]...)
				delete(tag, o.A)
			case o.K != "remove" && !present:
				ref = append(ref, 0)
				copy(ref[i+1:], ref[i:])
				ref[i] = o.A
			}
			if len(ref) == 0 {
				P = 0
			} else if len(ref) > P {
				P = len(ref)
			}
			if st != nil {
				st.Steps++
			}
			if cfg.Set {
				if t.Len() != len(ref) {
					return mc.Failf(si, "after %v: Len=%d want %d", o, t.Len(), len(ref))
				}
				j := 0
				var bad *mc.Failure
				t.Inorder(func(e Elem) bool {
					if j >= len(ref) || e.K != ref[j] || e.T != tag[e.K] {
						bad = mc.Failf(si, "after %v: Inorder item %d is %v, reference has %v (tags %v)", o, j, e, refAt(ref, j), tag[e.K])
						return false
					}
					j++
					return true
				})
				if bad != nil {
					return bad
				}
				if j != len(ref) {
					return mc.Failf(si, "after %v: Inorder yielded %d items, want %d", o, j, len(ref))
				}
				if g, ok := t.Get(Elem{K: o.A}); ok != (o.K != "remove") || (ok && (g.K != o.A || g.T != tag[o.A])) {
					return mc.Failf(si, "after %v: Get(%d)=(%v,%v)", o, o.A, g, ok)
				}
				if len(ref) > 0 {
					if t.Min().K != ref[0] || t.Max().K != ref[len(ref)-1] {
						return mc.Failf(si, "after %v: Min/Max=%v/%v want %d/%d", o, t.Min(), t.Max(), ref[0], ref[len(ref)-1])
					}
				}
				// InorderAfter on a tree of this shape (deep paths included): the
				// elements >= k in order. Around the key just touched and at the ends
				// after every step (first three elements), from every key and in
				// full from below the minimum every 32 steps and at the end.
				after := func(k int, full bool) *mc.Failure {
					i := sort.SearchInts(ref, k)
					j, stopped := i, false
					for e := range t.InorderAfter(Elem{K: k, T: -9}) {
						if j >= len(ref) || e.K != ref[j] || e.T != tag[e.K] {
							return mc.Failf(si, "after %v: InorderAfter(%d) item %d is %v, reference has %v (Len=%d)", o, k, j-i, e, refAt(ref, j), len(ref))
						}
						j++
						if !full && j-i >= 3 {
							stopped = true
							break
						}
					}
					if !stopped && j != len(ref) {
						return mc.Failf(si, "after %v: InorderAfter(%d) yields %d items, want %d (Len=%d)", o, k, j-i, len(ref)-i, len(ref))
					}
					return nil
				}
				probes := []int{o.A - 1, o.A, o.A + 1}
				if len(ref) > 0 {
					probes = append(probes, ref[0], ref[len(ref)/2], ref[len(ref)-1], ref[len(ref)-1]+1)
				}
				for _, k := range probes {
					if f := after(k, false); f != nil {
						return f
					}
				}
				if si%32 == 31 || si == len(plan)-1 {
					for _, k := range ref {
						if f := after(k, false); f != nil {
							return f
						}
					}
					if len(ref) > 0 {
						if f := after(ref[0]-1, true); f != nil {
							return f
						}
					}
				}
			}
			if cfg.Cursor {
				// Tree.Cursor on a tree shaped by this history: every present key
				// has a valid cursor on it whose Next/Prev walks reach exactly the
				// rest of the set; absent keys have none.
				for _, k := range []int{-3, o.A, o.A + 2} {
					if _, present := has(k); !present {
						if c := t.Cursor(Elem{K: k}); c.Valid() {
							return mc.Failf(si, "after %v: Cursor(absent %d) is valid at %v", o, k, c.Key())
						}
					}
				}
				for i, k := range ref {
					c := t.Cursor(Elem{K: k, T: -4})
					if !c.Valid() || c.Key().K != k {
						return mc.Failf(si, "after %v: Cursor(%d) valid=%v key=%v although the key is present (Len=%d)", o, k, c.Valid(), c.Key(), len(ref))
					}
					if c.HasNext() != (i+1 < len(ref)) || c.HasPrev() != (i > 0) {
						return mc.Failf(si, "after %v: cursor at %d: HasNext=%v HasPrev=%v at index %d of %d", o, k, c.HasNext(), c.HasPrev(), i, len(ref))
					}
					if i == 0 || i == len(ref)-1 || i == len(ref)/2 {
						// full walks from the ends and the middle
						fw := c.Clone()
						for j := i; j < len(ref); j++ {
							if !fw.Valid() || fw.Key().K != ref[j] {
								return mc.Failf(si, "after %v: Next walk from %d is at %v (valid=%v), want %d", o, k, fw.Key(), fw.Valid(), ref[j])
							}
							fw.Next()
						}
						if fw.Valid() {
							return mc.Failf(si, "after %v: Next walk from %d does not end", o, k)
						}
						bw := c.Clone()
						for j := i; j >= 0; j-- {
							if !bw.Valid() || bw.Key().K != ref[j] {
								return mc.Failf(si, "after %v: Prev walk from %d is at %v (valid=%v), want %d", o, k, bw.Key(), bw.Valid(), ref[j])
							}
							bw.Prev()
						}
						if bw.Valid() {
							return mc.Failf(si, "after %v: Prev walk from %d does not end", o, k)
						}
					} else {
						nx := c.Clone().Next()
						if !nx.Valid() || nx.Key().K != ref[i+1] {
							return mc.Failf(si, "after %v: Next from %d reaches %v, want %d", o, k, nx.Key(), ref[i+1])
						}
					}
				}
			}
			if cfg.Depth && cfg.Beta < 1000 && len(ref) > 0 {
				d := MaxDepth(t)
				if P != allowedFor {
					allowedFor, allowed = P, oracle.Allowed(P)
				}
				if d > allowed && !DepthAllowed(d, P, cfg.Beta) {
					return mc.Failf(si, "after %v: depth %d exceeds log_{2000/%d}(P=%d)+1 = max %d (Len=%d)", o, d, 1000+cfg.Beta, P, allowed, len(ref))
				}
				if st != nil {
					if sl := int64(allowed - d); sl < st.MinSlack {
						st.MinSlack = sl
					}
				}
				*n = 0
				t.Get(Elem{K: o.A})
				if int(*n) > allowed+1 {
					return mc.Failf(si, "after %v: Get made %d comparisons with allowed depth %d", o, *n, allowed)
				}
			}
		}
		return nil
	}
}

func refAt(ref []int, j int) string {
	if j < len(ref) {
		return fmt.Sprint(ref[j])
	}
	return "nothing"
}
