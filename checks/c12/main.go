// C12: LCS, LIS and LNDS return optimal subsequences. E4: bounded-exhaustive
// inputs against independent dynamic-programming oracles.
package main

import (
	gocmp "cmp"
	"fmt"
	"math"
	"strings"
	"sync/atomic"
	"time"

	"verif/mc"

	"github.com/creachadair/mds/slice"
)

type pair struct {
	A  []int  `json:"a"`
	B  []int  `json:"b"`
	Eq string `json:"eq"` // "==" or "mod" (custom equality: a%3 == b%3)
}

func lcsLen(a, b []int, eq func(x, y int) bool) int {
	prev := make([]int, len(b)+1)
	cur := make([]int, len(b)+1)
	for i := 1; i <= len(a); i++ {
		for j := 1; j <= len(b); j++ {
			switch {
			case eq(a[i-1], b[j-1]):
				cur[j] = prev[j-1] + 1
			case prev[j] >= cur[j-1]:
				cur[j] = prev[j]
			default:
				cur[j] = cur[j-1]
			}
		}
		prev, cur = cur, prev
		for j := range cur {
			cur[j] = 0
		}
	}
	return prev[len(b)]
}

// isSubseq reports whether s is a subsequence of v under eq(s[i], v[j]).
func isSubseq(s, v []int, eq func(x, y int) bool) bool {
	j := 0
	for _, x := range s {
		for j < len(v) && !eq(x, v[j]) {
			j++
		}
		if j == len(v) {
			return false
		}
		j++
	}
	return true
}

func checkLCS(p pair) *mc.Failure {
	return mc.GuardT("lcs", p, func() *mc.Failure {
		a := append([]int(nil), p.A...)
		b := append([]int(nil), p.B...)
		eq := func(x, y int) bool { return x == y }
		var got []int
		if p.Eq == "mod" {
			eq = func(x, y int) bool { return x%3 == y%3 }
			// A comparison that panics part-way (the caller recovers) must
			// leave nothing behind that the next, ordinary call could see.
			for _, k := range []int{1, 2, len(a) + 1} {
				calls := 0
				func() {
					defer func() { recover() }()
					slice.LCSFunc(a, b, func(x, y int) bool {
						if calls++; calls == k {
							panic("comparison gave up")
						}
						return x%3 == y%3
					})
				}()
			}
			got = slice.LCSFunc(a, b, eq)
		} else {
			got = slice.LCS(a, b)
			if g2 := slice.LCSFunc(a, b, eq); !mc.EqInts(got, g2) {
				return mc.Failf(0, "LCS(%v,%v)=%v but LCSFunc with == gives %v", a, b, got, g2)
			}
		}
		if !mc.EqInts(a, p.A) || !mc.EqInts(b, p.B) {
			return mc.Failf(0, "LCS modified its input")
		}
		if !isSubseq(got, a, eq) || !isSubseq(got, b, eq) {
			return mc.Failf(0, "LCS[%s](%v,%v)=%v is not a common subsequence", p.Eq, a, b, got)
		}
		if want := lcsLen(a, b, eq); len(got) != want {
			return mc.Failf(0, "LCS[%s](%v,%v)=%v has length %d, optimum is %d", p.Eq, a, b, got, len(got), want)
		}
		return nil
	})
}

type seqCase struct {
	V   []int  `json:"v"`
	Cmp string `json:"cmp"` // natural | scaled | reversed
}

func cmpFor(name string) func(a, b int) int {
	switch name {
	case "scaled":
		return func(a, b int) int { return 5 * (a - b) }
	case "reversed":
		return func(a, b int) int { return 2 * (b - a) }
	}
	return func(a, b int) int {
		switch {
		case a < b:
			return -1
		case a > b:
			return 1
		}
		return 0
	}
}

// longest is the O(n^2) oracle: longest subsequence with ok(prev, next).
func longest(v []int, ok func(p, n int) bool) int {
	best := 0
	l := make([]int, len(v))
	for i := range v {
		l[i] = 1
		for j := 0; j < i; j++ {
			if ok(v[j], v[i]) && l[j]+1 > l[i] {
				l[i] = l[j] + 1
			}
		}
		if l[i] > best {
			best = l[i]
		}
	}
	return best
}

func checkSeq(c seqCase) *mc.Failure {
	return mc.GuardT("lis-lnds", c, func() *mc.Failure {
		cmp := cmpFor(c.Cmp)
		eq := func(x, y int) bool { return x == y }
		for _, strict := range []bool{true, false} {
			v := append([]int(nil), c.V...)
			var got []int
			name := "LNDS"
			if strict {
				name = "LIS"
			}
			switch {
			case strict && c.Cmp == "natural":
				got = slice.LIS(v)
				if g2 := slice.LISFunc(v, cmp); !mc.EqInts(got, g2) {
					return mc.Failf(0, "LIS(%v)=%v but LISFunc(natural)=%v", v, got, g2)
				}
			case strict:
				got = slice.LISFunc(v, cmp)
			case c.Cmp == "natural":
				got = slice.LNDS(v)
				if g2 := slice.LNDSFunc(v, cmp); !mc.EqInts(got, g2) {
					return mc.Failf(0, "LNDS(%v)=%v but LNDSFunc(natural)=%v", v, got, g2)
				}
			default:
				got = slice.LNDSFunc(v, cmp)
			}
			if !mc.EqInts(v, c.V) {
				return mc.Failf(0, "%s modified its input %v -> %v", name, c.V, v)
			}
			if !isSubseq(got, v, eq) {
				return mc.Failf(0, "%s[%s](%v)=%v is not a subsequence of the input", name, c.Cmp, v, got)
			}
			for i := 1; i < len(got); i++ {
				d := cmp(got[i-1], got[i])
				if strict && d >= 0 || !strict && d > 0 {
					return mc.Failf(0, "%s[%s](%v)=%v is not %s", name, c.Cmp, v, got, map[bool]string{true: "strictly increasing", false: "non-decreasing"}[strict])
				}
			}
			want := longest(v, func(p, n int) bool {
				d := cmp(p, n)
				return d < 0 || !strict && d == 0
			})
			if len(got) != want {
				return mc.Failf(0, "%s[%s](%v)=%v has length %d, optimum is %d", name, c.Cmp, v, got, len(got), want)
			}
		}
		return nil
	})
}

// aliasCase: both arguments are views of one backing array.
type aliasCase struct {
	S              []int `json:"backing"`
	A0, A1, B0, B1 int
}

func checkAliasedLCS(c aliasCase) *mc.Failure {
	return mc.GuardT("lcs-aliased", c, func() *mc.Failure {
		s := append([]int(nil), c.S...)
		a, b := s[c.A0:c.A1], s[c.B0:c.B1]
		wa, wb := append([]int(nil), a...), append([]int(nil), b...)
		eq := func(x, y int) bool { return x == y }
		for _, fn := range []string{"LCS", "LCSFunc"} {
			var got []int
			if fn == "LCS" {
				got = slice.LCS(a, b)
			} else {
				got = slice.LCSFunc(a, b, eq)
			}
			if !mc.EqInts(s, c.S) {
				return mc.Failf(0, "%s on two views of one array modified it: %v -> %v", fn, c.S, s)
			}
			if !isSubseq(got, wa, eq) || !isSubseq(got, wb, eq) {
				return mc.Failf(0, "%s(s[%d:%d], s[%d:%d]) of s=%v is %v: not a common subsequence of %v and %v", fn, c.A0, c.A1, c.B0, c.B1, c.S, got, wa, wb)
			}
			if want := lcsLen(wa, wb, eq); len(got) != want {
				return mc.Failf(0, "%s(s[%d:%d], s[%d:%d]) of s=%v is %v: length %d, optimum %d", fn, c.A0, c.A1, c.B0, c.B1, c.S, got, len(got), want)
			}
		}
		return nil
	})
}

// hugeCase describes a pair built by mc.HugePair.
type hugeCase struct {
	Kind string `json:"kind"`
	N    int    `json:"n"`
	Swap bool   `json:"swap,omitempty"`
}

// hugeLimit: a 65537 x 65537 table takes tens of seconds, not microseconds.
const hugeLimit = 15 * time.Minute

func checkHuge(h hugeCase) *mc.Failure {
	a0, b0 := mc.HugePair(h.Kind, h.N)
	if h.Swap {
		a0, b0 = b0, a0
	}
	return mc.GuardTL("lcs-huge", h, hugeLimit, func() *mc.Failure {
		a := append([]int(nil), a0...)
		b := append([]int(nil), b0...)
		eq := func(x, y int) bool { return x == y }
		got := slice.LCS(a, b)
		desc := fmt.Sprintf("huge inputs (%s, %d and %d elements)", h.Kind, len(a), len(b))
		if !mc.EqInts(a, a0) || !mc.EqInts(b, b0) {
			return mc.Failf(0, "%s: LCS modified its input", desc)
		}
		if !isSubseq(got, a, eq) || !isSubseq(got, b, eq) {
			return mc.Failf(0, "%s: LCS result (%d elements) is not a common subsequence", desc, len(got))
		}
		if want := lcsLen(a, b, eq); len(got) != want {
			return mc.Failf(0, "%s: LCS result has length %d, optimum is %d", desc, len(got), want)
		}
		return nil
	})
}

// typedCase is a sequence of indices into one of the fixed typed alphabets.
type typedCase struct {
	Type string `json:"type"` // float64 | string
	Idx  []int  `json:"idx"`
}

var floatAlpha = []float64{math.NaN(), math.Inf(-1), -1, math.Copysign(0, -1), 0, 1.5, math.Inf(1)}
var stringAlpha = []string{"", "a", "B", "ab", "a\x00", "\xff"}

// checkOrdered runs LIS and LNDS (the cmp.Ordered entry points) on a typed
// sequence: the order is the one cmp.Compare defines (NaN below everything
// and equal to itself, -0 equal to +0).
func checkOrdered[T gocmp.Ordered](alpha []T, idx []int, bits func(T) string) *mc.Failure {
	v := make([]T, len(idx))
	for i, x := range idx {
		v[i] = alpha[x]
	}
	show := func(s []T) string {
		var parts []string
		for _, x := range s {
			parts = append(parts, bits(x))
		}
		return "[" + strings.Join(parts, " ") + "]"
	}
	orig := show(v)
	for _, strict := range []bool{true, false} {
		name, got := "LNDS", []T(nil)
		if strict {
			name = "LIS"
			got = slice.LIS(v)
		} else {
			got = slice.LNDS(v)
		}
		if show(v) != orig {
			return mc.Failf(0, "%s modified its input %s -> %s", name, orig, show(v))
		}
		j := 0
		for _, x := range got { // subsequence by identity of representation
			for j < len(v) && bits(v[j]) != bits(x) {
				j++
			}
			if j == len(v) {
				return mc.Failf(0, "%s(%s)=%s is not a subsequence of the input", name, orig, show(got))
			}
			j++
		}
		for i := 1; i < len(got); i++ {
			d := gocmp.Compare(got[i-1], got[i])
			if strict && d >= 0 || !strict && d > 0 {
				return mc.Failf(0, "%s(%s)=%s is not ordered as cmp.Compare orders the element type", name, orig, show(got))
			}
		}
		best := 0
		l := make([]int, len(v))
		for i := range v {
			l[i] = 1
			for k := 0; k < i; k++ {
				d := gocmp.Compare(v[k], v[i])
				if (d < 0 || !strict && d == 0) && l[k]+1 > l[i] {
					l[i] = l[k] + 1
				}
			}
			best = max(best, l[i])
		}
		if len(got) != best {
			return mc.Failf(0, "%s(%s)=%s has length %d, optimum under cmp.Compare is %d", name, orig, show(got), len(got), best)
		}
	}
	return nil
}

// checkRepeat calls LIS and LNDS on one buffer, changes one element in
// place and calls them again: the second answer must be about the new contents.
func checkRepeat(c seqCase, pos, val int) *mc.Failure {
	return mc.GuardT("lis-repeat", map[string]any{"v": c.V, "pos": pos, "val": val}, func() *mc.Failure {
		for _, strict := range []bool{true, false} {
			// the same function twice in a row on the same storage
			buf := append([]int(nil), c.V...)
			var got []int
			name := "LNDS"
			if strict {
				name = "LIS"
				slice.LIS(buf)
				buf[pos] = val
				got = slice.LIS(buf)
			} else {
				slice.LNDS(buf)
				buf[pos] = val
				got = slice.LNDS(buf)
			}
			want := append([]int(nil), buf...)
			if !isSubseq(got, want, func(x, y int) bool { return x == y }) {
				return mc.Failf(0, "%s(%v) after the same buffer held %v is %v: not a subsequence of the current contents", name, want, c.V, got)
			}
			for i := 1; i < len(got); i++ {
				if strict && got[i-1] >= got[i] || !strict && got[i-1] > got[i] {
					return mc.Failf(0, "%s(%v) after the same buffer held %v is %v: not ordered", name, want, c.V, got)
				}
			}
			opt := longest(want, func(p, n int) bool { return p < n || !strict && p == n })
			if len(got) != opt {
				return mc.Failf(0, "%s(%v) after the same buffer held %v is %v: length %d, optimum %d", name, want, c.V, got, len(got), opt)
			}
		}
		return nil
	})
}

func checkTyped(c typedCase) *mc.Failure {
	return mc.GuardT("lis-typed", c, func() *mc.Failure {
		if c.Type == "string" {
			return checkOrdered(stringAlpha, c.Idx, func(s string) string { return fmt.Sprintf("%q", s) })
		}
		return checkOrdered(floatAlpha, c.Idx, func(f float64) string {
			if f == 0 && math.Signbit(f) {
				return "-0"
			}
			return fmt.Sprint(f)
		})
	})
}

func main() {
	mc.Main("C12",
		mc.Harness{
			Name: "lcs",
			Explore: func(r *mc.Run) {
				type dom struct{ vals, maxLen int }
				doms := mc.Pick(r, []dom{{2, 7}, {3, 5}, {4, 4}}, []dom{{2, 9}, {3, 6}, {4, 5}})
				var evals, rep int64
				for _, d := range doms {
					seqs := mc.AllSeqs(d.vals, d.maxLen)
					mc.ParallelFor(len(seqs), r.Workers, func(i int) {
						for _, b := range seqs {
							for _, e := range []string{"==", "mod"} {
								if e == "mod" && d.vals < 4 {
									continue
								}
								p := pair{seqs[i], b, e}
								if f := checkLCS(p); f != nil {
									r.Violation(mc.Case{Harness: "lcs", Trace: mc.J(p), Msg: f.Msg})
								}
								atomic.AddInt64(&evals, 1)
							}
							if len(b) != len(seqs[i]) {
								atomic.AddInt64(&rep, 1)
							}
						}
					})
					r.Bound(fmt.Sprintf("alphabet_%d", d.vals), fmt.Sprintf("all pairs of sequences up to length %d", d.maxLen))
				}
				long := mc.LongSeqs(3, mc.Pick(r, []int{12, 17, 33, 64, 65, 130}, []int{12, 17, 33, 64, 65, 130, 257, 400}))
				var nlong int64
				mc.ParallelFor(len(long), r.Workers, func(i int) {
					for j := range long {
						if len(long[i])*len(long[j]) > 70000 {
							continue
						}
						p := pair{long[i], long[j], "=="}
						if f := checkLCS(p); f != nil {
							f.Msg = fmt.Sprintf("long inputs (%d and %d elements): %.300s", len(p.A), len(p.B), f.Msg)
							r.Violation(mc.Case{Harness: "lcs", Trace: mc.J(p), Msg: f.Msg})
						}
						atomic.AddInt64(&nlong, 1)
					}
				})
				r.Count("long_structured_pairs", nlong)
				evals += nlong
				r.AddEval(evals, evals, evals, rep)
				r.Rule("LCS and LCSFunc (incl. a custom equality on the 4-letter alphabet; each such call preceded by three calls whose comparison panics at its 1st, 2nd and (len+1)th use and is recovered) on every ordered pair; non-trivial = pairs of different lengths (argument swap path)")
				r.Sample(pair{[]int{0, 0}, []int{0}, "=="})
			},
			Replay: func(c mc.Case) *mc.Failure {
				var p pair
				if err := mc.Unmarshal(c.Trace, &p); err != nil {
					return mc.Failf(-1, "bad trace: %v", err)
				}
				return checkLCS(p)
			},
		},
		mc.Harness{
			Name: "lcs-aliased",
			Explore: func(r *mc.Run) {
				seqs := mc.AllSeqs(2, mc.Pick(r, 6, 8))
				var evals int64
				mc.ParallelFor(len(seqs), r.Workers, func(i int) {
					s := seqs[i]
					n := len(s)
					var k int64
					for a0 := 0; a0 <= n; a0++ {
						for a1 := a0; a1 <= n; a1++ {
							for b0 := 0; b0 <= n; b0++ {
								for b1 := b0; b1 <= n; b1++ {
									c := aliasCase{s, a0, a1, b0, b1}
									if f := checkAliasedLCS(c); f != nil {
										r.Violation(mc.Case{Harness: "lcs-aliased", Trace: mc.J(c), Msg: f.Msg})
									}
									k++
								}
							}
						}
					}
					atomic.AddInt64(&evals, k)
				})
				r.AddEval(int64(len(seqs)), evals, evals, evals)
				r.Rule("LCS and LCSFunc with both arguments every pair of subslices of one backing array (same start, prefixes of each other, overlapping, disjoint)")
				r.Sample(aliasCase{[]int{0, 1, 0, 1, 1}, 0, 5, 0, 3})
			},
			Replay: func(c mc.Case) *mc.Failure {
				var a aliasCase
				if err := mc.Unmarshal(c.Trace, &a); err != nil {
					return mc.Failf(-1, "bad trace: %v", err)
				}
				return checkAliasedLCS(a)
			},
		},
		mc.Harness{
			Name: "lcs-huge", HangLimit: hugeLimit,
			Explore: func(r *mc.Run) {
				sizes := mc.Pick(r, []int{1023, 1024, 1025, 4095, 4096, 4097}, []int{1023, 1024, 1025, 4095, 4096, 4097, 16383, 16384, 16385, 32768, 65535, 65536, 65537})
				var cases []hugeCase
				for _, n := range sizes {
					for _, k := range mc.HugeKinds {
						if n > 5000 && (k == "periodic" || k == "lcg4") {
							continue
						}
						cases = append(cases, hugeCase{k, n, false})
						if k != "equal" && k != "change" {
							cases = append(cases, hugeCase{k, n, true})
						}
					}
				}
				mc.ParallelFor(len(cases), r.Workers, func(i int) {
					if r.Expired() {
						return
					}
					if f := checkHuge(cases[i]); f != nil {
						r.Violation(mc.Case{Harness: "lcs-huge", Trace: mc.J(cases[i]), Msg: f.Msg})
					}
				})
				if r.Expired() {
					r.NotExhaustive("tier budget reached")
				}
				n := int64(len(cases))
				r.AddEval(n, n, n, n)
				r.Bound("sizes", fmt.Sprint(sizes))
				r.Bound("kinds", fmt.Sprint(mc.HugeKinds))
				r.Rule("LCS on a fixed family of long pairs at sizes around powers of two (see mc.HugePair), both argument orders, against the two-row length oracle")
				r.Sample(hugeCase{"blockswap", 4096, false})
			},
			Replay: func(c mc.Case) *mc.Failure {
				var h hugeCase
				if err := mc.Unmarshal(c.Trace, &h); err != nil {
					return mc.Failf(-1, "bad trace: %v", err)
				}
				return checkHuge(h)
			},
		},
		mc.Harness{
			Name: "lis-repeat",
			Explore: func(r *mc.Run) {
				seqs := mc.AllSeqs(4, mc.Pick(r, 5, 6))
				var n int64
				mc.ParallelFor(len(seqs), r.Workers, func(i int) {
					v := seqs[i]
					var k int64
					for pos := range v {
						for val := 0; val < 4; val++ {
							if val == v[pos] {
								continue
							}
							if f := checkRepeat(seqCase{V: v}, pos, val); f != nil {
								r.Violation(mc.Case{Harness: "lis-repeat", Trace: mc.J(map[string]any{"v": v, "pos": pos, "val": val}), Msg: f.Msg})
							}
							k++
						}
					}
					atomic.AddInt64(&n, k)
				})
				r.AddEval(int64(len(seqs)), n, n, n)
				r.Rule("LIS and LNDS called on a buffer, one element changed in place (every position, every other value), called again: the second result is judged against the new contents")
				r.Sample(map[string]any{"v": []int{3, 1, 2}, "pos": 0, "val": 0})
			},
			Replay: func(c mc.Case) *mc.Failure {
				var t struct {
					V        []int `json:"v"`
					Pos, Val int
				}
				if err := mc.Unmarshal(c.Trace, &t); err != nil {
					return mc.Failf(-1, "bad trace: %v", err)
				}
				return checkRepeat(seqCase{V: t.V}, t.Pos, t.Val)
			},
		},
		mc.Harness{
			Name: "lis-typed",
			Explore: func(r *mc.Run) {
				var evals int64
				for _, ty := range []struct {
					name string
					n, l int
				}{{"float64", len(floatAlpha), mc.Pick(r, 5, 7)}, {"string", len(stringAlpha), mc.Pick(r, 5, 6)}} {
					seqs := mc.AllSeqs(ty.n, ty.l)
					mc.ParallelFor(len(seqs), r.Workers, func(i int) {
						c := typedCase{ty.name, seqs[i]}
						if f := checkTyped(c); f != nil {
							r.Violation(mc.Case{Harness: "lis-typed", Trace: mc.J(c), Msg: f.Msg})
						}
					})
					evals += int64(len(seqs))
					r.Bound(ty.name, fmt.Sprintf("all sequences up to length %d over %d values", ty.l, ty.n))
				}
				r.AddEval(evals, 2*evals, 2*evals, evals)
				r.Rule("LIS and LNDS (the cmp.Ordered entry points) on every sequence over NaN, -Inf, -1, -0, +0, 1.5, +Inf and over six strings; the order is cmp.Compare's")
				r.Sample(typedCase{"float64", []int{5, 0, 4}})
			},
			Replay: func(c mc.Case) *mc.Failure {
				var t typedCase
				if err := mc.Unmarshal(c.Trace, &t); err != nil {
					return mc.Failf(-1, "bad trace: %v", err)
				}
				return checkTyped(t)
			},
		},
		mc.Harness{
			Name: "lis-lnds",
			Explore: func(r *mc.Run) {
				type dom struct{ vals, maxLen int }
				doms := mc.Pick(r, []dom{{4, 8}, {6, 6}, {2, 12}}, []dom{{5, 9}, {4, 10}, {7, 7}, {2, 16}, {3, 12}})
				var evals, ties int64
				for _, d := range doms {
					seqs := mc.AllSeqs(d.vals, d.maxLen)
					mc.ParallelFor(len(seqs), r.Workers, func(i int) {
						hasDup := false
						seen := map[int]bool{}
						for _, x := range seqs[i] {
							if seen[x] {
								hasDup = true
							}
							seen[x] = true
						}
						for _, cm := range []string{"natural", "scaled", "reversed"} {
							c := seqCase{seqs[i], cm}
							if f := checkSeq(c); f != nil {
								r.Violation(mc.Case{Harness: "lis-lnds", Trace: mc.J(c), Msg: f.Msg})
							}
							atomic.AddInt64(&evals, 2)
						}
						if hasDup {
							atomic.AddInt64(&ties, 1)
						}
					})
					r.Bound(fmt.Sprintf("alphabet_%d", d.vals), fmt.Sprintf("all sequences up to length %d", d.maxLen))
				}
				var nlong int64
				for _, vals := range []int{2, 5, 1000} {
					long := mc.LongSeqs(vals, mc.Pick(r, []int{20, 33, 64, 65, 100, 300}, []int{20, 33, 64, 65, 100, 300, 1000, 2500}))
					mc.ParallelFor(len(long), r.Workers, func(i int) {
						for _, cm := range []string{"natural", "scaled", "reversed"} {
							c := seqCase{long[i], cm}
							if f := checkSeq(c); f != nil {
								f.Msg = fmt.Sprintf("long input (%d elements over %d values): %.300s", len(c.V), vals, f.Msg)
								r.Violation(mc.Case{Harness: "lis-lnds", Trace: mc.J(c), Msg: f.Msg})
							}
							atomic.AddInt64(&nlong, 2)
						}
					})
				}
				r.Count("long_structured_inputs", nlong)
				evals += nlong
				r.AddEval(evals/6, evals, evals, ties)
				r.Rule("LIS/LISFunc and LNDS/LNDSFunc on every sequence under three comparators (-1/0/+1, 5*(a-b), reversed 2*(b-a)); O(n^2) DP oracle for the optimum; non-trivial = sequences with repeated elements")
				r.Sample(seqCase{[]int{5, 10, 20, 1}, "scaled"})
			},
			Replay: func(c mc.Case) *mc.Failure {
				var s seqCase
				if err := mc.Unmarshal(c.Trace, &s); err != nil {
					return mc.Failf(-1, "bad trace: %v", err)
				}
				return checkSeq(s)
			},
		},
	)
}
