// C20: byte and string helpers agree with their naive definitions on every
// input. E4: every length x alignment x zero pattern with guard bytes for
// mbits; every mixed-width string and cut point for Trunc; the complete
// relation matrix for CompareNatural.
package main

import (
	"fmt"
	"strings"
	"sync/atomic"
	"unicode/utf8"

	"verif/mc"

	"github.com/creachadair/mds/mbits"
	"github.com/creachadair/mds/mstr"
)

// ---------------- mbits ----------------

type bcase struct {
	Len     int    `json:"len"`
	Align   int    `json:"align"`   // 0..7, or -1: the slice is a whole allocation
	Pattern uint64 `json:"pattern"` // bit i set = byte i non-zero
	Guard   byte   `json:"guard"`
	// Spare: the slice keeps the capacity of the buffer behind it (guard
	// bytes) instead of being clipped to its length.
	Spare bool `json:"spare_capacity,omitempty"`
}

func fill(buf []byte, p uint64) {
	for i := range buf {
		switch {
		case p&(1<<uint(i)) == 0:
			buf[i] = 0
		case i%2 == 0:
			buf[i] = 0x01
		default:
			buf[i] = 0x80
		}
	}
}

func checkBits(c bcase) *mc.Failure {
	return mc.GuardT("mbits", c, func() *mc.Failure {
		var big, data []byte
		if c.Align < 0 {
			data = make([]byte, c.Len)
			big = data
		} else {
			big = make([]byte, c.Len+48)
			for i := range big {
				big[i] = c.Guard
			}
			// make() returns 8-aligned storage for these sizes; offset 16+align.
			data = big[16+c.Align : 16+c.Align+c.Len : 16+c.Align+c.Len]
			if c.Spare {
				data = big[16+c.Align : 16+c.Align+c.Len]
			}
		}
		fill(data, c.Pattern)
		lead, trail := 0, 0
		for lead < c.Len && data[lead] == 0 {
			lead++
		}
		for trail < c.Len && data[c.Len-1-trail] == 0 {
			trail++
		}
		if g := mbits.LeadingZeroes(data); g != lead {
			return mc.Failf(0, "LeadingZeroes(len %d, align %d, pattern %b, guard %#x) = %d, want %d", c.Len, c.Align, c.Pattern, c.Guard, g, lead)
		}
		if g := mbits.TrailingZeroes(data); g != trail {
			return mc.Failf(0, "TrailingZeroes(len %d, align %d, pattern %b, guard %#x) = %d, want %d", c.Len, c.Align, c.Pattern, c.Guard, g, trail)
		}
		if g := mbits.Zero(data); g != c.Len {
			return mc.Failf(0, "Zero(len %d) returned %d", c.Len, g)
		}
		for i, b := range data {
			if b != 0 {
				return mc.Failf(0, "Zero(len %d, align %d) left byte %d = %#x", c.Len, c.Align, i, b)
			}
		}
		if c.Align >= 0 {
			for i, b := range big {
				if (i < 16+c.Align || i >= 16+c.Align+c.Len) && b != c.Guard {
					return mc.Failf(0, "a byte outside the slice (offset %d relative to the slice) was written: %#x, guard %#x", i-16-c.Align, b, c.Guard)
				}
			}
		}
		return nil
	})
}

// checkLongBits: a slice of l bytes at alignment a, all zero except (pos >= 0)
// one non-zero byte at pos.
func checkLongBits(l, a, pos int, guard byte) *mc.Failure {
	return mc.GuardT("mbits-long", []int{l, a, pos, int(guard)}, func() *mc.Failure {
		big := make([]byte, l+48)
		for i := range big {
			big[i] = guard
		}
		data := big[16+a : 16+a+l : 16+a+l]
		for i := range data {
			data[i] = 0
		}
		lead, trail := l, l
		if pos >= 0 {
			data[pos] = 0x40
			lead, trail = pos, l-1-pos
		}
		if g := mbits.LeadingZeroes(data); g != lead {
			return mc.Failf(0, "LeadingZeroes(len %d, align %d, only byte %d non-zero, guard %#x) = %d, want %d", l, a, pos, guard, g, lead)
		}
		if g := mbits.TrailingZeroes(data); g != trail {
			return mc.Failf(0, "TrailingZeroes(len %d, align %d, only byte %d non-zero, guard %#x) = %d, want %d", l, a, pos, guard, g, trail)
		}
		for i := range data {
			data[i] = 0xA5
		}
		if g := mbits.Zero(data); g != l {
			return mc.Failf(0, "Zero(len %d) returned %d", l, g)
		}
		for i, b := range data {
			if b != 0 {
				return mc.Failf(0, "Zero(len %d, align %d) left byte %d = %#x", l, a, i, b)
			}
		}
		for i, b := range big {
			if (i < 16+a || i >= 16+a+l) && b != guard {
				return mc.Failf(0, "Zero(len %d, align %d) wrote outside the slice at relative offset %d", l, a, i-16-a)
			}
		}
		return nil
	})
}

// ---------------- Trunc ----------------

type tcase struct {
	S mc.BStr `json:"s"`
	N int     `json:"n"`
}

func checkTrunc(c tcase) *mc.Failure {
	return mc.GuardT("trunc", c, func() *mc.Failure {
		s := string(c.S)
		got := mstr.Trunc(s, c.N)
		if !strings.HasPrefix(s, got) {
			return mc.Failf(0, "Trunc(%q,%d)=%q is not a prefix", s, c.N, got)
		}
		if c.N >= len(s) {
			if got != s {
				return mc.Failf(0, "Trunc(%q,%d)=%q, want the string itself", s, c.N, got)
			}
			return nil
		}
		if len(got) > c.N {
			return mc.Failf(0, "Trunc(%q,%d)=%q is longer than n", s, c.N, got)
		}
		if utf8.ValidString(s) {
			if !utf8.ValidString(got) {
				return mc.Failf(0, "Trunc(%q,%d)=%q is not valid UTF-8 although the input is", s, c.N, got)
			}
			if c.N-len(got) > 4 {
				return mc.Failf(0, "Trunc(%q,%d)=%q is more than one encoded character (4 bytes) shorter than n", s, c.N, got)
			}
		}
		return nil
	})
}

// ---------------- CompareNatural ----------------

func isDigit(b byte) bool { return b >= '0' && b <= '9' }

// canon strips leading zeros of every maximal digit run (keeping one digit).
func canon(s string) string {
	var sb strings.Builder
	for i := 0; i < len(s); {
		j := i
		if isDigit(s[i]) {
			for j < len(s) && isDigit(s[j]) {
				j++
			}
			run := strings.TrimLeft(s[i:j], "0")
			if run == "" {
				run = "0"
			}
			sb.WriteString("#" + run + "#")
		} else {
			for j < len(s) && !isDigit(s[j]) {
				j++
			}
			sb.WriteString(s[i:j])
		}
		i = j
	}
	return sb.String()
}

func sign(x int) int {
	switch {
	case x < 0:
		return -1
	case x > 0:
		return 1
	}
	return 0
}

type ncase struct {
	A string `json:"a"`
	B string `json:"b"`
	C string `json:"c,omitempty"`
}

// checkNatPair: range, antisymmetry, zero iff canonically equal, numeric order.
// numericExpect applies the clause "orders embedded digit runs by numeric
// value": when a and b are p+r1+q and p+r2+q with r1, r2 maximal digit runs
// (p not ending in a digit), the result is the sign of r1-r2 as numbers. Runs
// of more than 18 significant digits are left alone (the property excludes
// runs that overflow int).
func numericExpect(a, b string) (want int, ok bool) {
	isD := func(c byte) bool { return c >= '0' && c <= '9' }
	i := 0
	for i < len(a) && i < len(b) && a[i] == b[i] {
		i++
	}
	for i > 0 && isD(a[i-1]) { // back to the start of a run that the common prefix cuts
		i--
	}
	ea, eb := i, i
	for ea < len(a) && isD(a[ea]) {
		ea++
	}
	for eb < len(b) && isD(b[eb]) {
		eb++
	}
	if ea == i || eb == i || a[ea:] != b[eb:] {
		return 0, false
	}
	ra, rb := strings.TrimLeft(a[i:ea], "0"), strings.TrimLeft(b[i:eb], "0")
	if len(ra) > 18 || len(rb) > 18 {
		return 0, false
	}
	switch {
	case len(ra) != len(rb):
		return sign(len(ra) - len(rb)), true
	case ra < rb:
		return -1, true
	case ra > rb:
		return 1, true
	}
	return 0, true
}

// equalLeadingRuns reports whether a and b both begin with digit runs of the
// same numeric value, and returns what follows the runs.
func equalLeadingRuns(a, b string) (ta, tb string, ok bool) {
	isD := func(c byte) bool { return c >= '0' && c <= '9' }
	ea, eb := 0, 0
	for ea < len(a) && isD(a[ea]) {
		ea++
	}
	for eb < len(b) && isD(b[eb]) {
		eb++
	}
	if ea == 0 || eb == 0 {
		return "", "", false
	}
	ra, rb := strings.TrimLeft(a[:ea], "0"), strings.TrimLeft(b[:eb], "0")
	if len(ra) > 18 || ra != rb {
		return "", "", false
	}
	return a[ea:], b[eb:], true
}

func checkNatPair(a, b string) *mc.Failure {
	ab, ba := mstr.CompareNatural(a, b), mstr.CompareNatural(b, a)
	if want, ok := numericExpect(a, b); ok && ab != want {
		return mc.Failf(0, "CompareNatural(%q,%q)=%d, but the strings differ only in one digit run and the runs compare %d as numbers", a, b, ab, want)
	}
	if ab < -1 || ab > 1 {
		return mc.Failf(0, "CompareNatural(%q,%q)=%d is outside {-1,0,1}", a, b, ab)
	}
	// Runs are ordered by numeric value, so two leading runs of equal value
	// decide nothing: the answer is that of the remainders (the comparison is
	// documented as lexicographic over runs).
	if ta, tb, ok := equalLeadingRuns(a, b); ok {
		if rest := mstr.CompareNatural(ta, tb); ab != rest {
			return mc.Failf(0, "CompareNatural(%q,%q)=%d although both begin with digit runs of equal value and the remainders compare (%q,%q)=%d", a, b, ab, ta, tb, rest)
		}
	}
	if ab != -ba {
		return mc.Failf(0, "CompareNatural(%q,%q)=%d but (%q,%q)=%d: not antisymmetric", a, b, ab, b, a, ba)
	}
	if (ab == 0) != (canon(a) == canon(b)) {
		return mc.Failf(0, "CompareNatural(%q,%q)=%d, but the strings are %sequal up to leading zeros of digit runs", a, b, ab, map[bool]string{true: "", false: "not "}[canon(a) == canon(b)])
	}
	return nil
}

func allStrings(alpha string, maxLen int) []string {
	out := []string{""}
	lo := 0
	for l := 1; l <= maxLen; l++ {
		hi := len(out)
		for _, p := range out[lo:hi] {
			for i := 0; i < len(alpha); i++ {
				out = append(out, p+alpha[i:i+1])
			}
		}
		lo = hi
	}
	return out
}

func main() {
	mc.Main("C20",
		mc.Harness{
			Name: "mbits",
			Explore: func(r *mc.Run) {
				maxLen := mc.Pick(r, 18, 22)
				var evals, word int64
				type job struct{ l, a int }
				var jobs []job
				for l := 0; l <= maxLen; l++ {
					for a := 0; a < 8; a++ {
						jobs = append(jobs, job{l, a})
					}
				}
				mc.ParallelFor(len(jobs), r.Workers, func(i int) {
					j := jobs[i]
					var n int64
					for p := uint64(0); p < 1<<uint(j.l); p++ {
						for _, g := range []byte{0x00, 0xFF} {
							for _, spare := range []bool{false, true} {
								if spare && j.l > 14 && p&(p-1) != 0 && p != 1<<uint(j.l)-1 {
									continue // spare capacity: all lengths up to 14; beyond, the patterns with at most one or with all bytes set
								}
								c := bcase{Len: j.l, Align: j.a, Pattern: p, Guard: g, Spare: spare}
								if f := checkBits(c); f != nil {
									r.Violation(mc.Case{Harness: "mbits", Trace: mc.J(c), Msg: f.Msg})
								}
								n++
							}
						}
					}
					atomic.AddInt64(&evals, n)
					if j.l >= 8 {
						atomic.AddInt64(&word, n)
					}
				})
				// Whole allocations of size-class length (checkptr build): a word
				// access that crosses the end of the object panics.
				var whole int64
				for _, l := range []int{1, 2, 3, 4, 5, 6, 7, 8, 9, 12, 15, 16, 17, 23, 24, 25, 31, 32, 33, 47, 48, 49, 63, 64, 65, 80, 96, 112, 128, 129} {
					pats := []uint64{0, 1, 1 << uint(min(l-1, 63))}
					if l <= 12 {
						pats = nil
						for p := uint64(0); p < 1<<uint(l); p++ {
							pats = append(pats, p)
						}
					}
					for _, p := range pats {
						c := bcase{Len: l, Align: -1, Pattern: p}
						if f := checkBits(c); f != nil {
							r.Violation(mc.Case{Harness: "mbits", Trace: mc.J(c), Msg: f.Msg})
						}
						whole++
					}
				}
				// long slices (several words, loop unrolling thresholds): all-zero and
				// a single non-zero byte at every position, at every alignment
				var longc int64
				mc.ParallelFor(8, r.Workers, func(a int) {
					for _, l := range mc.Pick(r, []int{23, 24, 31, 32, 33, 63, 64, 65, 127, 128, 129, 300}, []int{23, 24, 31, 32, 33, 63, 64, 65, 127, 128, 129, 255, 256, 257, 511, 512, 513, 1000, 4097}) {
						for pos := -1; pos < l; pos++ {
							for _, g := range []byte{0x00, 0xFF} {
								if f := checkLongBits(l, a, pos, g); f != nil {
									r.Violation(mc.Case{Harness: "mbits-long", Trace: mc.J([]int{l, a, pos, int(g)}), Msg: f.Msg})
								}
								atomic.AddInt64(&longc, 1)
							}
						}
					}
				})
				r.Count("long_slice_cases", longc)
				evals += longc
				r.AddEval(evals+whole, evals+whole, evals+whole, word)
				r.Bound("max_len", maxLen)
				r.Bound("alignments", 8)
				r.Count("whole_allocation_cases", whole)
				r.Count("cases_reaching_the_word_loop(len>=8)", word)
				r.Rule("every length x alignment x zero/non-zero pattern x guard value (0x00, 0xFF) inside a larger buffer, plus whole-allocation slices; non-trivial = cases long enough for the 64-bit word loop")
				r.Assume("built with -gcflags=all=-d=checkptr when the toolchain accepts it, so a word access crossing the end of an allocation panics")
				r.Sample(bcase{Len: 10, Align: 5, Pattern: 0, Guard: 0})
			},
			Replay: func(c mc.Case) *mc.Failure {
				var b bcase
				if err := mc.Unmarshal(c.Trace, &b); err != nil {
					return mc.Failf(-1, "bad trace: %v", err)
				}
				return checkBits(b)
			},
		},
		mc.Harness{
			Name:    "mbits-long",
			Explore: func(r *mc.Run) {},
			Replay: func(c mc.Case) *mc.Failure {
				var v []int
				if err := mc.Unmarshal(c.Trace, &v); err != nil || len(v) != 4 {
					return mc.Failf(-1, "bad trace")
				}
				return checkLongBits(v[0], v[1], v[2], byte(v[3]))
			},
		},
		mc.Harness{
			Name: "trunc",
			Explore: func(r *mc.Run) {
				runes := []string{"a", "é", "€", "😀"}
				var strs []string
				for _, sq := range mc.AllSeqs(4, mc.Pick(r, 4, 5)) {
					s := ""
					for _, i := range sq {
						s += runes[i]
					}
					strs = append(strs, s)
				}
				for _, unit := range []string{"a", "é", "€", "😀", "aé€😀", "😀a"} {
					for _, reps := range []int{8, 33, 100} {
						strs = append(strs, strings.Repeat(unit, reps))
					}
				}
				bytesAlpha := string([]byte{0x61, 0x80, 0xC3, 0xE2, 0xF0})
				strs = append(strs, allStrings(bytesAlpha, mc.Pick(r, 6, 7))...)
				var evals, multi int64
				mc.ParallelFor(len(strs), r.Workers, func(i int) {
					s := strs[i]
					for n := 0; n <= len(s)+1; n++ {
						c := tcase{mc.BStr(s), n}
						if f := checkTrunc(c); f != nil {
							r.Violation(mc.Case{Harness: "trunc", Trace: mc.J(c), Msg: f.Msg})
						}
						atomic.AddInt64(&evals, 1)
						if n < len(s) && s[n]&0xC0 == 0x80 {
							atomic.AddInt64(&multi, 1)
						}
					}
				})
				r.AddEval(int64(len(strs)), evals, evals, multi)
				r.Rule("all strings of mixed-width runes (1,2,3,4 bytes) and all byte strings over {a,0x80,0xC3,0xE2,0xF0} up to the bounds, every cut point 0..len+1; non-trivial = cuts that land inside an encoding")
				r.Sample(tcase{mc.BStr("é€"), 3})
			},
			Replay: func(c mc.Case) *mc.Failure {
				var t tcase
				if err := mc.Unmarshal(c.Trace, &t); err != nil {
					return mc.Failf(-1, "bad trace: %v", err)
				}
				return checkTrunc(t)
			},
		},
		mc.Harness{
			Name:    "natural-shared",
			Explore: func(r *mc.Run) {},
			Replay: func(c mc.Case) *mc.Failure {
				var t ncase
				if err := mc.Unmarshal(c.Trace, &t); err != nil {
					return mc.Failf(-1, "bad trace: %v", err)
				}
				// rebuild the sharing: the shorter argument is a prefix slice of the longer
				a, b := t.A, t.B
				if strings.HasPrefix(b, a) {
					a = b[:len(a)]
				} else if strings.HasPrefix(a, b) {
					b = a[:len(b)]
				}
				got, want := mstr.CompareNatural(a, b), mstr.CompareNatural(strings.Clone(t.A), strings.Clone(t.B))
				if got != want {
					return mc.Failf(0, "CompareNatural(%q,%q) = %d when the arguments are slices of one string, %d when they are separate copies", t.A, t.B, got, want)
				}
				return nil
			},
		},
		mc.Harness{
			Name: "natural",
			Explore: func(r *mc.Run) {
				alpha := mc.Pick(r, "019/:", "019/:a")
				strs := allStrings(alpha, mc.Pick(r, 4, 5))
				n := len(strs)
				// relation matrix
				rel := make([][]int8, n)
				var pairs, zeros int64
				mc.ParallelFor(n, r.Workers, func(i int) {
					row := make([]int8, n)
					for j := 0; j < n; j++ {
						row[j] = int8(mstr.CompareNatural(strs[i], strs[j]))
						if j >= i {
							if f := mc.GuardT("natural", ncase{A: strs[i], B: strs[j]}, func() *mc.Failure { return checkNatPair(strs[i], strs[j]) }); f != nil {
								r.Violation(mc.Case{Harness: "natural", Trace: mc.J(ncase{A: strs[i], B: strs[j]}), Msg: f.Msg})
							}
						}
						if row[j] == 0 && i != j {
							atomic.AddInt64(&zeros, 1)
						}
					}
					rel[i] = row
					atomic.AddInt64(&pairs, int64(n))
				})
				// arguments that share storage: a string against each of its own prefixes
				// must compare as independent copies of the two do
				var shared int64
				for _, s := range strs {
					for k := 0; k <= len(s); k++ {
						a, b := s[:k], s
						for _, pr := range [][2]string{{a, b}, {b, a}} {
							got := mstr.CompareNatural(pr[0], pr[1])
							want := mstr.CompareNatural(strings.Clone(pr[0]), strings.Clone(pr[1]))
							shared++
							if got != want {
								c := ncase{A: pr[0], B: pr[1]}
								r.Violation(mc.Case{Harness: "natural-shared", Trace: mc.J(c), Msg: fmt.Sprintf("CompareNatural(%q,%q) = %d when the arguments are slices of one string, %d when they are separate copies", pr[0], pr[1], got, want)})
							}
						}
					}
				}
				r.Count("pairs_sharing_storage", shared)
				// Total preorder <=> the relation is induced by rank(s) = number of
				// strings strictly below s. Equivalent to checking transitivity on
				// the whole cube, in O(n^2).
				rank := make([]int, n)
				for i := 0; i < n; i++ {
					for j := 0; j < n; j++ {
						if rel[i][j] > 0 {
							rank[i]++
						}
					}
				}
				var bad int64
				mc.ParallelFor(n, r.Workers, func(i int) {
					for j := 0; j < n; j++ {
						if int(rel[i][j]) != sign(rank[i]-rank[j]) && atomic.AddInt64(&bad, 1) <= 3 {
							// The relation is total and antisymmetric (checked pair by pair), so a
							// rank mismatch means it is not transitive: find a witness triple, first
							// among the triples that contain i and j, then anywhere. The case that is
							// recorded is the triple, which a replay can check on its own.
							le := func(a, b int) bool { return rel[a][b] <= 0 }
							bad3 := func(a, b, c int) bool { return le(a, b) && le(b, c) && rel[a][c] > 0 }
							var w *ncase
							try := func(a, b, c int) bool {
								for _, p := range [6][3]int{{a, b, c}, {a, c, b}, {b, a, c}, {b, c, a}, {c, a, b}, {c, b, a}} {
									if bad3(p[0], p[1], p[2]) {
										w = &ncase{A: strs[p[0]], B: strs[p[1]], C: strs[p[2]]}
										return true
									}
								}
								return false
							}
							for k := 0; k < n && w == nil; k++ {
								try(i, j, k)
							}
							for a := 0; a < n && w == nil; a++ {
								for b := a + 1; b < n && w == nil; b++ {
									for c := b + 1; c < n && w == nil; c++ {
										try(a, b, c)
									}
								}
							}
							if w == nil {
								// cannot happen for a total antisymmetric relation; report the pair (a replay will not confirm it)
								w = &ncase{A: strs[i], B: strs[j]}
							}
							msg := fmt.Sprintf("CompareNatural is not transitive: %q <= %q <= %q but (%q,%q)=%d (found through the ranks of %q and %q)", w.A, w.B, w.C, w.A, w.C, mstr.CompareNatural(w.A, w.C), strs[i], strs[j])
							r.Violation(mc.Case{Harness: "natural", Trace: mc.J(*w), Msg: msg})
						}
					}
				})
				// numeric order: p + run1 + q vs p + run2 + q
				var numeric int64
				runs := []string{"0", "1", "9", "00", "01", "09", "10", "11", "19", "90", "99", "010", "100", "0099"}
				vals := []int{0, 1, 9, 0, 1, 9, 10, 11, 19, 90, 99, 10, 100, 99}
				shortPrefixes := []string{"", "a", "/", "a:"}
				for k := 2; k <= 17; k++ {
					shortPrefixes = append(shortPrefixes, "abcdefghijklmnopq"[:k])
				}
				for _, p := range shortPrefixes {
					for _, q := range []string{"", "a", ":", "/x"} {
						for i, r1 := range runs {
							for j, r2 := range runs {
								numeric++
								if g := mstr.CompareNatural(p+r1+q, p+r2+q); g != sign(vals[i]-vals[j]) {
									c := ncase{A: p + r1 + q, B: p + r2 + q}
									r.Violation(mc.Case{Harness: "natural", Trace: mc.J(c), Msg: fmt.Sprintf("CompareNatural(%q,%q)=%d, digit runs %d vs %d", c.A, c.B, g, vals[i], vals[j])})
								}
							}
						}
					}
				}
				// long digit runs (up to 18 significant digits: within int, beyond int32 and float64 precision)
				nums := []string{"0", "7", "32767", "32768", "65535", "65536", "2147483647", "2147483648", "4294967295", "4294967296",
					"9007199254740992", "9007199254740993", "99999999999999999", "100000000000000000", "999999999999999999", "999999999999999998"}
				var longRuns []string
				for _, x := range nums {
					longRuns = append(longRuns, x, "000"+x)
				}
				// prefixes of every length 0..17 as well: an implementation that skips a
				// common prefix a word at a time must not split a digit run
				prefixes := []string{"", "a", "v1.", "x9/"}
				for k := 2; k <= 17; k++ {
					prefixes = append(prefixes, "abcdefghijklmnopq"[:k], "ab/de:gh.jk-mn_pq"[:k-1]+"7")
				}
				for _, p := range prefixes {
					for _, q := range []string{"", "b", ".5", "/7x"} {
						for _, r1 := range longRuns {
							for _, r2 := range longRuns {
								numeric++
								c := ncase{A: p + r1 + q, B: p + r2 + q}
								if f := mc.GuardT("natural", c, func() *mc.Failure { return checkNatPair(c.A, c.B) }); f != nil {
									r.Violation(mc.Case{Harness: "natural", Trace: mc.J(c), Msg: f.Msg})
								}
							}
						}
					}
				}
				r.AddEval(int64(n), pairs+numeric, pairs+numeric, zeros/2)
				r.Bound("alphabet", alpha)
				r.Bound("strings", n)
				r.Bound("triples_covered_by_the_rank_argument", int64(n)*int64(n)*int64(n))
				r.Rule("complete relation matrix over all strings up to the bound: range, antisymmetry, 0 <=> equal after stripping leading zeros of digit runs, total preorder via rank consistency (equivalent to transitivity on the full cube), numeric order on embedded runs, leading runs of equal value leave the answer to the remainders (CompareNatural of the tails); non-trivial = distinct pairs comparing equal")
				r.Sample(ncase{A: "a01", B: "a1"})
			},
			Replay: func(c mc.Case) *mc.Failure {
				var t ncase
				if err := mc.Unmarshal(c.Trace, &t); err != nil {
					return mc.Failf(-1, "bad trace: %v", err)
				}
				if f := mc.Guard(func() *mc.Failure { return checkNatPair(t.A, t.B) }); f != nil {
					return f
				}
				if t.C != "" {
					ab, bc, ac := mstr.CompareNatural(t.A, t.B), mstr.CompareNatural(t.B, t.C), mstr.CompareNatural(t.A, t.C)
					if ab <= 0 && bc <= 0 && ac > 0 {
						return mc.Failf(0, "not transitive on (%q,%q,%q)", t.A, t.B, t.C)
					}
					return nil
				}
				// numeric-order cases are re-derived from the strings
				ca, cb := canon(t.A), canon(t.B)
				if ca != cb && mstr.CompareNatural(t.A, t.B) == 0 {
					return mc.Failf(0, "CompareNatural(%q,%q)=0", t.A, t.B)
				}
				return nil
			},
		},
	)
}
