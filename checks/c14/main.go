// C14: mdiff text formats round-trip and mean what GNU diff/patch say they
// mean. E4: every enumerated diff (plain and hostile line alphabets, context
// sizes, file headers) is formatted, parsed back, re-formatted and applied to
// Left by reference appliers; /usr/bin/patch gives a second verdict.
package main

import (
	"bytes"
	"fmt"
	"os"
	"strings"
	"sync"
	"sync/atomic"
	"time"

	"verif/lib/mdiffh"
	"verif/mc"

	"github.com/creachadair/mds/mdiff"
	"github.com/creachadair/mds/slice"
)

type tcase struct {
	Alpha []string `json:"alphabet"`
	L     []int    `json:"left"`
	R     []int    `json:"right"`
	N     int      `json:"context"`  // 0: New only; n > 0: New.AddContext(n).Unify()
	FI    int      `json:"fileinfo"` // 0 none, 1 names, 2 names and timestamps
}

var (
	t1 = time.Date(2024, 2, 29, 13, 4, 5, 123456000, time.FixedZone("", 5*3600+1800))
	t2 = time.Date(1999, 12, 31, 23, 59, 59, 0, time.FixedZone("", -8*3600))
)

func fileInfo(k int) *mdiff.FileInfo {
	switch k {
	case 1:
		return &mdiff.FileInfo{Left: "old/file.txt", Right: "new file.txt"}
	case 2:
		return &mdiff.FileInfo{Left: "a/x.go", Right: "b/x.go", LeftTime: t1, RightTime: t2}
	}
	return nil
}

type flat struct {
	op   slice.EditOp
	x, y []string
}

// normalize expands Replace into Drop+Copy and merges adjacent edits of the
// same kind: the form in which the unified reader returns a chunk.
func normalize(es []mdiff.Edit) []flat {
	var out []flat
	add := func(op slice.EditOp, x, y []string) {
		if len(out) > 0 && out[len(out)-1].op == op {
			out[len(out)-1].x = append(out[len(out)-1].x, x...)
			out[len(out)-1].y = append(out[len(out)-1].y, y...)
			return
		}
		out = append(out, flat{op, append([]string(nil), x...), append([]string(nil), y...)})
	}
	for _, e := range es {
		if e.Op == slice.OpReplace {
			add(slice.OpDrop, e.X, nil)
			add(slice.OpCopy, nil, e.Y)
		} else {
			add(e.Op, e.X, e.Y)
		}
	}
	return out
}

func sameFlat(a, b []flat) bool {
	if len(a) != len(b) {
		return false
	}
	for i := range a {
		if a[i].op != b[i].op || fmt.Sprintf("%q", a[i].x) != fmt.Sprintf("%q", b[i].x) || fmt.Sprintf("%q", a[i].y) != fmt.Sprintf("%q", b[i].y) {
			return false
		}
	}
	return true
}

func sameChunks(got, want []*mdiff.Chunk) string {
	if len(got) != len(want) {
		return fmt.Sprintf("%d chunks read back, %d written", len(got), len(want))
	}
	for i := range want {
		g, w := got[i], want[i]
		if g.LStart != w.LStart || g.LEnd != w.LEnd || g.RStart != w.RStart || g.REnd != w.REnd {
			return fmt.Sprintf("chunk %d read back as L[%d,%d) R[%d,%d), written as L[%d,%d) R[%d,%d)", i, g.LStart, g.LEnd, g.RStart, g.REnd, w.LStart, w.LEnd, w.RStart, w.REnd)
		}
		if !sameFlat(normalize(g.Edits), normalize(w.Edits)) {
			return fmt.Sprintf("chunk %d edits read back as %v, written as %v", i, g.Edits, w.Edits)
		}
	}
	return ""
}

func format(f mdiff.FormatFunc, cs []*mdiff.Chunk, fi *mdiff.FileInfo) string {
	var b bytes.Buffer
	f(&b, cs, fi)
	return b.String()
}

func eqLines(a, b []string) bool {
	if len(a) != len(b) {
		return false
	}
	for i := range a {
		if a[i] != b[i] {
			return false
		}
	}
	return true
}

type renderings struct {
	left, right             []string
	normal, unified, contxt string
	chunks                  []*mdiff.Chunk
}

func build(t tcase) renderings {
	left, right := mdiffh.Lines(t.L, t.Alpha), mdiffh.Lines(t.R, t.Alpha)
	d := mdiff.New(left, right)
	if t.N > 0 {
		d.AddContext(t.N).Unify()
	}
	fi := fileInfo(t.FI)
	return renderings{left, right, format(mdiff.Normal, d.Chunks, fi), format(mdiff.Unified, d.Chunks, fi), format(mdiff.Context, d.Chunks, fi), d.Chunks}
}

// others returns two fixed diffs (multi-line hunks on both sides) used as
// neighbours in multi-file git patches.
var others = sync.OnceValues(func() (renderings, renderings) {
	al := []string{"p", "q", "r", "s", "X", "Y", "Z"}
	a := build(tcase{al, []int{0, 1, 2, 3}, []int{0, 4, 5, 3}, 1, 1})
	b := build(tcase{al, []int{0, 1, 2, 3, 0, 1}, []int{1, 2, 6, 6, 0, 1}, 2, 2})
	return a, b
})

func check(t tcase) *mc.Failure {
	return mc.GuardT("formats", t, func() *mc.Failure {
		r := build(t)
		fi := fileInfo(t.FI)
		if len(r.chunks) == 0 {
			if r.normal != "" || r.unified != "" || r.contxt != "" {
				return mc.Failf(0, "no chunks but non-empty diff text")
			}
			if !eqLines(r.left, r.right) {
				return mc.Failf(0, "meaning: the diff of %q and %q is empty, so applying any rendering to Left leaves Left, not Right", r.left, r.right)
			}
			return nil
		}
		// ---- meaning: each rendering applied to Left gives Right
		if got, err := mdiffh.ApplyNormal(r.normal, r.left); err != nil || !eqLines(got, r.right) {
			return mc.Failf(0, "meaning/normal: applying the normal diff to Left gives %q (error %v), want %q; diff:\n%s", got, err, r.right, r.normal)
		}
		if got, err := mdiffh.ApplyUnified(r.unified, r.left); err != nil || !eqLines(got, r.right) {
			return mc.Failf(0, "meaning/unified: applying the unified diff to Left gives %q (error %v), want %q; diff:\n%s", got, err, r.right, r.unified)
		}
		if got, err := mdiffh.ApplyContext(r.contxt, r.left); err != nil || !eqLines(got, r.right) {
			return mc.Failf(0, "meaning/context: applying the context diff to Left gives %q (error %v), want %q; diff:\n%s", got, err, r.right, r.contxt)
		}
		// ---- round trip: unified
		p, err := mdiff.ReadUnified(strings.NewReader(r.unified))
		if err != nil {
			return mc.Failf(0, "roundtrip/unified: ReadUnified fails on the formatter's own output: %v\n%s", err, r.unified)
		}
		if (p.FileInfo == nil) != (fi == nil) {
			return mc.Failf(0, "roundtrip/unified: file header presence changed")
		}
		if fi != nil {
			if p.FileInfo.Left != fi.Left || p.FileInfo.Right != fi.Right {
				return mc.Failf(0, "roundtrip/unified: file names read back as %q/%q, written %q/%q", p.FileInfo.Left, p.FileInfo.Right, fi.Left, fi.Right)
			}
			if !p.FileInfo.LeftTime.Equal(fi.LeftTime) || !p.FileInfo.RightTime.Equal(fi.RightTime) {
				return mc.Failf(0, "roundtrip/unified: timestamps read back as %v/%v, written %v/%v", p.FileInfo.LeftTime, p.FileInfo.RightTime, fi.LeftTime, fi.RightTime)
			}
		}
		if d := sameChunks(p.Chunks, r.chunks); d != "" {
			return mc.Failf(0, "roundtrip/unified: %s; text:\n%s", d, r.unified)
		}
		if again := format(mdiff.Unified, p.Chunks, p.FileInfo); again != r.unified {
			return mc.Failf(0, "roundtrip/unified: re-formatting the parsed patch gives\n%s\nwritten\n%s", again, r.unified)
		}
		// ---- round trip: git wrapper (needs a file header). The patch is read
		// alone, twice in a row, and between two *different* patches (a reader
		// that reuses storage between file sections must not mix them up).
		if fi != nil {
			section := func(u string) string {
				return "diff --git a/x.go b/x.go\nindex 1234567..89abcde 100644\n" + u
			}
			o1, o2 := others()
			type sect struct {
				text string
				want []*mdiff.Chunk
			}
			this := sect{r.unified, r.chunks}
			for _, seq := range [][]sect{{this}, {this, this}, {{o1.unified, o1.chunks}, this, {o2.unified, o2.chunks}}, {this, {o2.unified, o2.chunks}}} {
				var text string
				for _, sc := range seq {
					text += section(sc.text)
				}
				ps, err := mdiff.ReadGitPatch(strings.NewReader(text))
				if err != nil {
					return mc.Failf(0, "roundtrip/git: ReadGitPatch (%d patches): %v\n%s", len(seq), err, text)
				}
				if len(ps) != len(seq) {
					return mc.Failf(0, "roundtrip/git: %d patches read, %d written\n%s", len(ps), len(seq), text)
				}
				for i, gp := range ps {
					if d := sameChunks(gp.Chunks, seq[i].want); d != "" {
						return mc.Failf(0, "roundtrip/git: patch %d of %d: %s; text:\n%s", i+1, len(seq), d, text)
					}
					if gp.FileInfo == nil || gp.FileInfo.Left == "" || gp.FileInfo.Right == "" {
						return mc.Failf(0, "roundtrip/git: file names lost")
					}
					if again := format(mdiff.Unified, gp.Chunks, gp.FileInfo); again != seq[i].text {
						return mc.Failf(0, "roundtrip/git: re-formatting patch %d of %d gives\n%s\nwritten\n%s", i+1, len(seq), again, seq[i].text)
					}
				}
			}
		}
		// ---- round trip: normal (one chunk per change command)
		np, err := mdiff.Read(strings.NewReader(r.normal))
		if err != nil {
			return mc.Failf(0, "roundtrip/normal: Read fails on the formatter's own output: %v\n%s", err, r.normal)
		}
		var want []*mdiff.Chunk
		for _, c := range r.chunks {
			lp, rp := c.LStart, c.RStart
			for _, e := range c.Edits {
				switch e.Op {
				case slice.OpEmit:
					lp += len(e.X)
					rp += len(e.X)
					continue
				}
				want = append(want, &mdiff.Chunk{Edits: []mdiff.Edit{e}, LStart: lp, LEnd: lp + len(e.X), RStart: rp, REnd: rp + len(e.Y)})
				lp += len(e.X)
				rp += len(e.Y)
			}
		}
		if len(np.Chunks) != len(want) {
			return mc.Failf(0, "roundtrip/normal: %d chunks read back for %d change commands\n%s", len(np.Chunks), len(want), r.normal)
		}
		for i, w := range want {
			g := np.Chunks[i]
			if g.LStart != w.LStart || g.LEnd != w.LEnd || g.RStart != w.RStart || g.REnd != w.REnd {
				return mc.Failf(0, "roundtrip/normal: command %d read back as L[%d,%d) R[%d,%d), written as L[%d,%d) R[%d,%d)\n%s", i, g.LStart, g.LEnd, g.RStart, g.REnd, w.LStart, w.LEnd, w.RStart, w.REnd, r.normal)
			}
			if len(g.Edits) != 1 || g.Edits[0].Op != w.Edits[0].Op || fmt.Sprintf("%q%q", g.Edits[0].X, g.Edits[0].Y) != fmt.Sprintf("%q%q", w.Edits[0].X, w.Edits[0].Y) {
				return mc.Failf(0, "roundtrip/normal: command %d read back as %v, written as %v\n%s", i, g.Edits, w.Edits, r.normal)
			}
		}
		if again := format(mdiff.Normal, np.Chunks, nil); again != r.normal {
			return mc.Failf(0, "roundtrip/normal: re-formatting the parsed patch gives\n%s\nwritten\n%s", again, r.normal)
		}
		return nil
	})
}

// lcase describes a long pair (mdiffh.LongPair): line numbers of two to four
// digits, many hunks, hunks that merge or stay apart depending on the context.
type lcase struct {
	N    int  `json:"lines"`
	Gap  int  `json:"gap"`
	Ctx  int  `json:"context"`
	FI   int  `json:"fileinfo"`
	Swap bool `json:"swap,omitempty"`
	// LineLen > 0: every third line is padded to this many bytes with
	// non-periodic filler (buffer boundaries of a line reader).
	LineLen int `json:"line_len,omitempty"`
}

func padLine(s string, n, salt int) string {
	b := []byte(s + " ")
	x := uint64(salt)*2654435761 + 1
	for len(b) < n {
		x = x*6364136223846793005 + 1442695040888963407
		const filler = "abcdefghijklmnopqrstuvwxyz0123456789 -+<>@\\"
		b = append(b, filler[(x>>33)%uint64(len(filler))])
	}
	return string(b[:max(n, len(s))])
}

func checkLongCase(l lcase) *mc.Failure {
	al, L, R := mdiffh.LongPair(l.N, l.Gap)
	if l.LineLen > 0 {
		for i := range al {
			if i%3 != 1 {
				al[i] = padLine(al[i], l.LineLen, i)
			}
		}
	}
	if l.Swap {
		L, R = R, L
	}
	f := check(tcase{al, L, R, l.Ctx, l.FI})
	if f != nil {
		if len(f.Msg) > 900 {
			f.Msg = f.Msg[:900] + "..."
		}
		f.Msg = fmt.Sprintf("long pair (%d lines, %d unchanged lines between edits, context %d, swap=%v, long lines %d bytes): %s", l.N, l.Gap, l.Ctx, l.Swap, l.LineLen, f.Msg)
	}
	return f
}

var hostile = []string{"", " a", "-x", "+x", "--- q", "+++ q", "---", "< q", "> q", "@@ x", "@@ -1 +1 @@", "diff x", "\\ no", "-- x", "++ x", "*** 1 ****", "--- 1 ----", "***************", "1a2", "! x"}

func alphabets(r *mc.Run) [][]string {
	out := [][]string{{"a", "b"}, {"a", "b", "c"}}
	for _, h := range hostile {
		out = append(out, []string{h, "x", "y"})
	}
	if !r.Quick() {
		for i := 0; i < len(hostile); i++ {
			for j := i + 1; j < len(hostile); j++ {
				out = append(out, []string{hostile[i], hostile[j], "x"})
			}
		}
	}
	return out
}

func main() {
	mc.Main("C14", mc.Harness{
		Name: "formats",
		Explore: func(r *mc.Run) {
			var cases []tcase
			for ai, al := range alphabets(r) {
				maxLen := 3
				if ai == 0 {
					maxLen = mc.Pick(r, 5, 6)
				} else if ai == 1 {
					maxLen = mc.Pick(r, 3, 4)
				}
				seqs := mc.AllSeqs(len(al), maxLen)
				for _, a := range seqs {
					for _, b := range seqs {
						for _, n := range []int{0, 1, 2, 3} {
							fi := (len(a) + len(b) + n) % 3 // all three header variants spread over the cases
							cases = append(cases, tcase{al, a, b, n, fi})
							if ai <= 1 && n <= 1 {
								cases = append(cases, tcase{al, a, b, n, (fi + 1) % 3}, tcase{al, a, b, n, (fi + 2) % 3})
							}
						}
					}
				}
			}
			var nontriv int64
			mc.ParallelFor(len(cases), r.Workers, func(i int) {
				if i%512 == 0 && r.Expired() {
					return
				}
				if f := check(cases[i]); f != nil {
					r.Violation(mc.Case{Harness: "formats", Trace: mc.J(cases[i]), Msg: f.Msg})
				}
				if len(cases[i].L) > 0 && len(cases[i].R) > 0 && len(cases[i].L) != len(cases[i].R) {
					atomic.AddInt64(&nontriv, 1)
				}
			})
			if r.Expired() {
				r.NotExhaustive("tier budget reached")
			}
			// Second verdict from GNU patch on a fixed stride of the same cases.
			stride := mc.Pick(r, 97, 7)
			var gnuRuns, gnuDisagree, gnuBothFail int64
			var samples []string
			var smu sync.Mutex
			if mdiffh.HavePatch() {
				var idx []int
				for i := 0; i < len(cases); i += stride {
					idx = append(idx, i)
				}
				dirs := make(chan string, r.Workers)
				var made []string
				for w := 0; w < r.Workers; w++ {
					d, err := os.MkdirTemp("", "c14patch")
					if err == nil {
						dirs <- d
						made = append(made, d)
					}
				}
				mc.ParallelFor(len(idx), len(made), func(k int) {
					if r.Expired() {
						return
					}
					dir := <-dirs
					defer func() { dirs <- dir }()
					t := cases[idx[k]]
					rn := build(t)
					if len(rn.chunks) == 0 {
						return
					}
					for _, fm := range []struct{ kind, text string }{{"n", rn.normal}, {"u", rn.unified}, {"c", rn.contxt}} {
						got, err := mdiffh.GNUPatch(dir, fm.kind, fm.text, rn.left)
						atomic.AddInt64(&gnuRuns, 1)
						ok := err == nil && eqLines(got, rn.right)
						var ref []string
						var rerr error
						switch fm.kind {
						case "n":
							ref, rerr = mdiffh.ApplyNormal(fm.text, rn.left)
						case "u":
							ref, rerr = mdiffh.ApplyUnified(fm.text, rn.left)
						default:
							ref, rerr = mdiffh.ApplyContext(fm.text, rn.left)
						}
						refok := rerr == nil && eqLines(ref, rn.right)
						if ok != refok {
							atomic.AddInt64(&gnuDisagree, 1)
							smu.Lock()
							if len(samples) < 8 {
								samples = append(samples, fmt.Sprintf("format %s, gnu ok=%v (%v), reference ok=%v (%v), left %q right %q:\n%s", fm.kind, ok, err, refok, rerr, rn.left, rn.right, fm.text))
							}
							smu.Unlock()
						} else if !ok {
							atomic.AddInt64(&gnuBothFail, 1)
						}
					}
				})
				for _, d := range made {
					os.RemoveAll(d)
				}
			}
			n := int64(len(cases))
			r.AddEval(n, n, n, nontriv)
			r.Bound("alphabets", len(alphabets(r)))
			r.Bound("context_sizes", "0 (New only) and AddContext(n).Unify() for n = 1,2,3")
			r.Bound("file_headers", "none / names / names+timestamps in two zones")
			r.Count("gnu_patch_runs", gnuRuns)
			r.Count("gnu_patch_vs_reference_disagreements", gnuDisagree)
			r.Count("gnu_patch_and_reference_both_reject", gnuBothFail)
			if len(samples) > 0 {
				r.Extra("gnu_patch_disagreement_samples", samples)
			}
			r.Extra("gnu_patch_available", mdiffh.HavePatch())
			r.Rule("every pair of line sequences over each alphabet (plain {a,b}, {a,b,c}; one or two hostile lines with neutral lines) x context sizes x header variants: apply normal/unified/context renderings with strict reference appliers; unified, git-wrapped and normal round trips incl. byte-identical re-formatting; GNU patch on a fixed stride as second verdict; non-trivial = both sides non-empty with different lengths")
			r.Assume("reference appliers follow GNU patch's reading of omitted counts (1) and empty ranges (the line before); validated against /usr/bin/patch on the same cases when present")
			r.Sample(tcase{[]string{"--- q", "x", "y"}, []int{0, 1}, []int{1, 2}, 1, 1})
		},
		Replay: func(c mc.Case) *mc.Failure {
			var t tcase
			if err := mc.Unmarshal(c.Trace, &t); err != nil {
				return mc.Failf(-1, "bad trace: %v", err)
			}
			return check(t)
		},
	}, mc.Harness{
		Name: "formats-long",
		Explore: func(r *mc.Run) {
			var cases []lcase
			for _, n := range mc.Pick(r, []int{12, 40, 130, 1100}, []int{12, 40, 130, 300, 1100, 2500, 10100}) {
				for gap := 0; gap <= 11; gap++ {
					for _, ctx := range []int{0, 1, 2, 3, 5, 8} {
						fi := (n + gap + ctx) % 3
						cases = append(cases, lcase{N: n, Gap: gap, Ctx: ctx, FI: fi}, lcase{N: n, Gap: gap, Ctx: ctx, FI: (fi + 1) % 3, Swap: true})
					}
				}
			}
			// long lines: sizes around the usual reader buffers
			for _, ll := range mc.Pick(r, []int{255, 4095, 4096, 4097, 16383, 16384, 16385, 65537}, []int{255, 4095, 4096, 4097, 8192, 16383, 16384, 16385, 16386, 32769, 65535, 65536, 65537, 1 << 20}) {
				for _, ctx := range []int{0, 1, 3} {
					cases = append(cases, lcase{N: 12, Gap: 3, Ctx: ctx, FI: ctx % 3, LineLen: ll}, lcase{N: 12, Gap: 1, Ctx: ctx, FI: (ctx + 1) % 3, Swap: true, LineLen: ll})
				}
			}
			mc.ParallelFor(len(cases), r.Workers, func(i int) {
				if r.Expired() {
					return
				}
				if f := checkLongCase(cases[i]); f != nil {
					r.Violation(mc.Case{Harness: "formats-long", Trace: mc.J(cases[i]), Msg: f.Msg})
				}
			})
			if r.Expired() {
				r.NotExhaustive("tier budget reached")
			}
			n := int64(len(cases))
			r.AddEval(n, n, n, n)
			r.Rule("files of 12...1100/10100 lines with an edit every gap+1 lines (gap 0...11), context 0...8, three header variants, both directions: line numbers of up to five digits, dozens to thousands of hunks; and 12-line files whose lines are padded to 255...65537 bytes (1 MiB in the thorough tier); the same meaning and round-trip oracles as the short cases")
			r.Sample(lcase{N: 1100, Gap: 4, Ctx: 3, FI: 1})
		},
		Replay: func(c mc.Case) *mc.Failure {
			var l lcase
			if err := mc.Unmarshal(c.Trace, &l); err != nil {
				return mc.Failf(-1, "bad trace: %v", err)
			}
			return checkLongCase(l)
		},
	})
}
