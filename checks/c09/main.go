// C09: cache.Cache is safe and linearizable under concurrent use.
// E3: the real Cache, its sync import redirected to a scheduler shim, runs
// small workloads under every schedule within a preemption bound; each
// execution is checked for linearizability against the LRU reference
// (including eviction callbacks), Size <= limit, races at the Store seam
// (vector clocks), deadlock and panics. A separate free-running -race pass
// covers unsynchronised plain fields.
package main

import (
	"context"
	"encoding/json"
	"flag"
	"fmt"
	"os"
	"os/exec"
	"runtime"
	"sort"
	"strings"
	"sync"
	"sync/atomic"
	"time"

	"verif/mc"

	"github.com/creachadair/mds/cache"
)

var replayMu sync.Mutex

// seamPoints makes Store-seam calls and eviction callbacks scheduling points
// (thorough tier; the quick tier schedules at lock operations and operation
// boundaries only and relies on the happens-before analysis for the seam).
var seamPoints = false

// seamForWorkload is set by execute for workloads that ask for seam points.
var seamForWorkload = false

var raceBin = flag.String("race-bin", "", "binary of this check built with -race and the real sync package")
var freeRun = flag.String("free-run", "", "internal: run the free-running workloads (race build) and exit")

// ---- operations ----

type cop struct {
	K string `json:"k"` // has get put remove len size clear
	A int    `json:"a,omitempty"`
	V int    `json:"v,omitempty"`
}

func (o cop) String() string {
	switch o.K {
	case "put":
		return fmt.Sprintf("Put(%d,%d)", o.A, o.V)
	case "len", "size", "clear":
		return strings.ToUpper(o.K[:1]) + o.K[1:] + "()"
	}
	return fmt.Sprintf("%s%s(%d)", strings.ToUpper(o.K[:1]), o.K[1:], o.A)
}

var alphabet = []cop{
	{K: "has", A: 0}, {K: "get", A: 0}, {K: "get", A: 1}, {K: "put", A: 0, V: 1}, {K: "put", A: 2, V: 1}, {K: "put", A: 2, V: 2},
	{K: "put", A: 1, V: 0}, {K: "put", A: 1, V: 3}, {K: "remove", A: 0}, {K: "len"}, {K: "size"}, {K: "clear"},
}

// small alphabet for the longer workloads
var alphabet6 = []cop{{K: "get", A: 0}, {K: "put", A: 0, V: 1}, {K: "put", A: 2, V: 1}, {K: "put", A: 2, V: 2}, {K: "remove", A: 0}, {K: "size"}}

const (
	limit = 2
	nkeys = 3
)

var roots = [][]cop{
	{},
	{{K: "put", A: 0, V: 1}},
	{{K: "put", A: 0, V: 1}, {K: "put", A: 1, V: 1}},
}

// baseRoots: the short roots every workload family starts from. Root 3 is an
// aged cache (70000 accesses: access stamps beyond 2^15 and 2^16), used by a
// small family only since every execution replays its root.
const baseRoots = 3

func init() {
	aged := []cop{{K: "put", A: 0, V: 1}, {K: "put", A: 1, V: 1}}
	// key 1 last touched at tick ~30000, key 0 at ~70000: their order flips
	// under a 16-bit stamp, signed or unsigned
	for i := 0; i < 70000; i++ {
		if i == 30000 {
			aged = append(aged, cop{K: "get", A: 1})
		}
		aged = append(aged, cop{K: "get", A: 0})
	}
	roots = append(roots, aged)
}

type ev struct{ K, V int }

type result struct {
	B   bool
	N   int64
	Cbs []ev
}

// ---- reference LRU (size(v) = v) ----

type ref struct {
	order []int
	val   map[int]int
	size  int64
}

func (r *ref) clone() *ref {
	c := &ref{order: append([]int(nil), r.order...), val: map[int]int{}, size: r.size}
	for k, v := range r.val {
		c.val[k] = v
	}
	return c
}

func (r *ref) del(k int) {
	for i, x := range r.order {
		if x == k {
			r.order = append(r.order[:i:i], r.order[i+1:]...)
			break
		}
	}
	delete(r.val, k)
}

// apply performs o on the reference; it returns the expected result, the
// evictions in LRU order, the replaced entry (if any) and whether the order
// of the callbacks is free (Clear).
func (r *ref) apply(o cop) (res result, evict []ev, replaced *ev, orderFree bool) {
	switch o.K {
	case "has":
		_, res.B = r.val[o.A]
	case "get":
		v, ok := r.val[o.A]
		res.B, res.N = ok, int64(v)
		if ok {
			r.del(o.A)
			r.val[o.A] = v
			r.order = append(r.order, o.A)
		}
	case "put":
		sz := int64(o.V)
		if sz > limit {
			return
		}
		res.B = true
		if old, ok := r.val[o.A]; ok {
			replaced = &ev{o.A, old}
			r.size -= int64(old)
			r.del(o.A)
		}
		for r.size+sz > limit {
			k := r.order[0]
			evict = append(evict, ev{k, r.val[k]})
			r.size -= int64(r.val[k])
			r.del(k)
		}
		r.val[o.A] = o.V
		r.order = append(r.order, o.A)
		r.size += sz
	case "remove":
		if v, ok := r.val[o.A]; ok {
			res.B = true
			evict = append(evict, ev{o.A, v})
			r.size -= int64(v)
			r.del(o.A)
		}
	case "len":
		res.N = int64(len(r.val))
	case "size":
		res.N = r.size
	case "clear":
		for _, k := range r.order {
			evict = append(evict, ev{k, r.val[k]})
		}
		orderFree = true
		r.order, r.val, r.size = nil, map[int]int{}, 0
	}
	return
}

func sameCallbacks(got []ev, evict []ev, replaced *ev, orderFree bool) bool {
	g := append([]ev(nil), got...)
	if replaced != nil {
		found := false
		for i, e := range g {
			if e == *replaced {
				g = append(g[:i:i], g[i+1:]...)
				found = true
				break
			}
		}
		if !found {
			return false
		}
	}
	if len(g) != len(evict) {
		return false
	}
	if orderFree {
		less := func(x []ev) func(i, j int) bool {
			return func(i, j int) bool { return x[i].K < x[j].K || x[i].K == x[j].K && x[i].V < x[j].V }
		}
		e := append([]ev(nil), evict...)
		sort.Slice(g, less(g))
		sort.Slice(e, less(e))
		evict = e
	}
	for i := range g {
		if g[i] != evict[i] {
			return false
		}
	}
	return true
}

// ---- one execution ----

type record struct {
	Thread    int
	Op        cop
	Call, Ret int
	Res       result
}

type final struct {
	Len  int
	Size int64
	Has  [nkeys]bool
}

type workload struct {
	Root    int     `json:"root"`
	Threads [][]cop `json:"threads"`
	// Seam: Store-seam calls are scheduling points in this workload even in
	// the quick tier (a thread can then be preempted while it holds the lock,
	// which is what a TryLock fast path needs in order to fail).
	Seam bool `json:"seam_points,omitempty"`
}

// seamStore wraps the real store: every call is a scheduling point and a
// recorded seam event.
type seamStore struct {
	inner cache.Store[int, int]
	s     **mc.Sched
}

func (w seamStore) call(name string, mut bool) {
	if s := *w.s; s != nil {
		s.SeamCall(name, mut, seamPoints || seamForWorkload)
	}
}
func (w seamStore) Access(k int) (int, bool) { w.call("Access", true); return w.inner.Access(k) }
func (w seamStore) Check(k int) (int, bool)  { w.call("Check", false); return w.inner.Check(k) }
func (w seamStore) Store(k, v int)           { w.call("Store", true); w.inner.Store(k, v) }
func (w seamStore) Remove(k int)             { w.call("Remove", true); w.inner.Remove(k) }
func (w seamStore) Evict() (int, int)        { w.call("Evict", true); return w.inner.Evict() }

func doOp(c *cache.Cache[int, int], o cop) result {
	switch o.K {
	case "has":
		return result{B: c.Has(o.A)}
	case "get":
		v, ok := c.Get(o.A)
		return result{B: ok, N: int64(v)}
	case "put":
		return result{B: c.Put(o.A, o.V)}
	case "remove":
		return result{B: c.Remove(o.A)}
	case "len":
		return result{N: int64(c.Len())}
	case "size":
		return result{N: c.Size()}
	default:
		c.Clear()
		return result{}
	}
}

type outcome struct {
	hist     []record
	fin      final
	sched    *mc.Sched
	initial  *ref
	overSize string
}

func initialRef(root int) *ref {
	r := &ref{val: map[int]int{}}
	for _, o := range roots[root] {
		r.apply(o)
	}
	return r
}

// execute runs w under the schedule chosen by ch on a fresh real cache.
func execute(w workload, ch *mc.Chooser) *outcome {
	seamForWorkload = w.Seam
	out := &outcome{initial: initialRef(w.Root)}
	var sched *mc.Sched
	var cbs [][]ev // per thread: callbacks of the operation in progress
	conf := cache.LRU[int, int]().WithSize(func(v int) int64 { return int64(v) }).OnEvict(func(k, v int) {
		if sched != nil {
			t := sched.Cur()
			t.Point() // the callback is user code running inside the operation: a scheduling point
			cbs[t.ID] = append(cbs[t.ID], ev{k, v})
		}
	})
	conf = wrapStore(conf, func(in cache.Store[int, int]) cache.Store[int, int] { return seamStore{in, &sched} })
	c := cache.New(limit, conf)
	for _, o := range roots[w.Root] {
		doOp(c, o)
	}
	cbs = make([][]ev, len(w.Threads))
	var bodies []func(t *mc.SThread)
	for ti := range w.Threads {
		ops := w.Threads[ti]
		bodies = append(bodies, func(t *mc.SThread) {
			for _, o := range ops {
				call := t.OpBegin()
				cbs[t.ID] = nil
				res := doOp(c, o)
				res.Cbs = cbs[t.ID]
				if o.K == "size" && res.N > limit {
					out.overSize = fmt.Sprintf("thread %d observed Size()=%d > limit %d", t.ID, res.N, limit)
				}
				ret := t.OpEnd()
				out.hist = append(out.hist, record{t.ID, o, call, ret, res})
			}
		})
	}
	sched = mc.NewSched(ch, bodies...)
	out.sched = sched
	install(sched)
	sched.Run()
	install(nil)
	s := sched
	sched = nil
	if !s.Deadlock && len(s.Panics) == 0 {
		out.fin.Len, out.fin.Size = c.Len(), c.Size()
		for k := 0; k < nkeys; k++ {
			out.fin.Has[k] = c.Has(k)
		}
	}
	return out
}

// linearizable searches for a sequential order of the recorded operations
// that respects real-time order and explains every result, every callback
// list and the final state (Wing & Gong).
func linearizable(o *outcome) bool {
	n := len(o.hist)
	used := make([]bool, n)
	var rec func(r *ref, done int) bool
	rec = func(r *ref, done int) bool {
		if done == n {
			if len(r.val) != o.fin.Len || r.size != o.fin.Size {
				return false
			}
			for k := 0; k < nkeys; k++ {
				if _, ok := r.val[k]; ok != o.fin.Has[k] {
					return false
				}
			}
			return true
		}
		for i := 0; i < n; i++ {
			if used[i] {
				continue
			}
			// i may come next only if no other pending operation returned before i was called
			minimal := true
			for j := 0; j < n; j++ {
				if !used[j] && j != i && o.hist[j].Ret < o.hist[i].Call {
					minimal = false
					break
				}
			}
			if !minimal {
				continue
			}
			rc := r.clone()
			want, evict, replaced, free := rc.apply(o.hist[i].Op)
			got := o.hist[i].Res
			if want.B != got.B || want.N != got.N || !sameCallbacks(got.Cbs, evict, replaced, free) {
				continue
			}
			used[i] = true
			if rec(rc, done+1) {
				return true
			}
			used[i] = false
		}
		return false
	}
	return rec(o.initial.clone(), 0)
}

func describe(o *outcome) string {
	var sb strings.Builder
	for _, h := range o.hist {
		fmt.Fprintf(&sb, "T%d %v [%d,%d] -> %v/%d callbacks %v; ", h.Thread, h.Op, h.Call, h.Ret, h.Res.B, h.Res.N, h.Res.Cbs)
	}
	fmt.Fprintf(&sb, "final Len=%d Size=%d Has=%v", o.fin.Len, o.fin.Size, o.fin.Has)
	return sb.String()
}

// verdict checks one execution.
func verdict(w workload, o *outcome) *mc.Failure {
	s := o.sched
	if len(s.Panics) > 0 {
		return mc.Failf(0, "panic inside a cache operation under this schedule: %s", strings.Join(s.Panics, "; "))
	}
	if s.Deadlock {
		return mc.Failf(0, "deadlock: %s", s.DeadInfo)
	}
	if rs := s.Races(); len(rs) > 0 {
		return mc.Failf(0, "data race at the storage seam: %s", rs[0])
	}
	if o.overSize != "" {
		return mc.Failf(0, "%s", o.overSize)
	}
	if !linearizable(o) {
		return mc.Failf(0, "not linearizable: no sequential order of the calls that respects real time explains the results, the eviction callbacks and the final state: %s", describe(o))
	}
	return nil
}

type wtrace struct {
	W    workload `json:"workload"`
	Devs []mc.Dev `json:"schedule"`
}

func makeDFS(w workload, bound int, outcomes *mc.KeyCounter, preempt *int64) *mc.DFS {
	return &mc.DFS{
		Name: "sched", Config: w, MaxDev: bound, Workers: 1, HangWatch: true,
		Body: func(ch *mc.Chooser) *mc.Failure {
			o := execute(w, ch)
			if preempt != nil && o.sched.Preempted > 0 {
				atomic.AddInt64(preempt, 1)
			}
			f := verdict(w, o)
			if f != nil {
				f.Step = ch.Points()
			}
			if outcomes != nil {
				outcomes.Add(fmt.Sprint(o.fin, len(o.hist)))
			}
			return f
		},
	}
}

// families names the workload family of each workload (parallel to ws).
var families []string

func workloads(r *mc.Run) (ws []workload, bound []int) {
	families = nil
	fam := ""
	add := func(w workload, b int) {
		ws = append(ws, w)
		bound = append(bound, b)
		families = append(families, fam)
	}
	n := len(alphabet)
	pairs := [][]cop{}
	for i := 0; i < n; i++ {
		for j := 0; j < n; j++ {
			pairs = append(pairs, []cop{alphabet[i], alphabet[j]})
		}
	}
	// 2 threads x 2 ops over the full alphabet
	fam = "2x2 over 12 operations"
	for _, root := range mc.Pick(r, []int{2}, []int{0, 1, 2}) {
		for _, a := range pairs {
			for _, b := range pairs {
				add(workload{Root: root, Threads: [][]cop{a, b}}, mc.Pick(r, 2, 3))
			}
		}
	}
	// ... and over the 6-operation alphabet with a higher bound, from every root
	fam = "2x2 over 6 operations"
	var pairs6 [][]cop
	for _, x := range alphabet6 {
		for _, y := range alphabet6 {
			pairs6 = append(pairs6, []cop{x, y})
		}
	}
	for root := 0; root < baseRoots; root++ {
		for _, a := range pairs6 {
			for _, b := range pairs6 {
				add(workload{Root: root, Threads: [][]cop{a, b}}, mc.Pick(r, 3, 4))
			}
		}
	}
	// 3 threads x 1 op, unbounded schedules, all roots
	fam = "3x1 and 2x1 over 12 operations"
	for root := 0; root < baseRoots; root++ {
		for i := 0; i < n; i++ {
			for j := 0; j < n; j++ {
				for k := 0; k < n; k++ {
					add(workload{Root: root, Threads: [][]cop{{alphabet[i]}, {alphabet[j]}, {alphabet[k]}}}, mc.Pick(r, 2, 4))
				}
			}
		}
		// 2 threads x 1 op, unbounded
		for i := 0; i < n; i++ {
			for j := 0; j < n; j++ {
				add(workload{Root: root, Threads: [][]cop{{alphabet[i]}, {alphabet[j]}}}, -1)
			}
		}
	}
	// lock holders preempted inside their critical section (seam points): 2x2 from the
	// full cache over five operations that matter for recency and accounting
	if r.Quick() {
		fam = "2x2 with seam points"
		five := []cop{{K: "get", A: 0}, {K: "put", A: 2, V: 1}, {K: "has", A: 2}, {K: "remove", A: 1}, {K: "size"}}
		var p5 [][]cop
		for _, x := range five {
			for _, y := range five {
				p5 = append(p5, []cop{x, y})
			}
		}
		for _, a := range p5 {
			for _, b := range p5 {
				add(workload{Root: 2, Threads: [][]cop{a, b}, Seam: true}, 2)
			}
		}
	}
	// an aged cache: 2 threads x 1 op, unbounded, and 2 x 2 over the small alphabet
	fam = "aged cache"
	for i := 0; i < n; i++ {
		for j := 0; j < n; j++ {
			add(workload{Root: baseRoots, Threads: [][]cop{{alphabet[i]}, {alphabet[j]}}}, -1)
		}
	}
	if !r.Quick() {
		for _, a := range pairs6 {
			for _, b := range pairs6 {
				add(workload{Root: baseRoots, Threads: [][]cop{a, b}}, 2)
			}
		}
	}
	// 4 threads x 1 op (the property speaks of 2-4 goroutines)
	fam = "4x1 over 6 operations"
	four := alphabet6
	for root := 0; root < baseRoots; root++ {
		for _, a := range four {
			for _, b := range four {
				for _, c := range four {
					for _, d := range four {
						add(workload{Root: root, Threads: [][]cop{{a}, {b}, {c}, {d}}}, mc.Pick(r, 1, 2))
					}
				}
			}
		}
	}
	if !r.Quick() {
		m := len(alphabet6)
		// 2 threads x 3 ops and 3 threads x 2 ops over the small alphabet
		// 3 threads x 1 op over the small alphabet: every schedule
		fam = "3x1 over 6 operations, unbounded"
		for root := 0; root < baseRoots; root++ {
			for _, a := range alphabet6 {
				for _, b := range alphabet6 {
					for _, c := range alphabet6 {
						add(workload{Root: root, Threads: [][]cop{{a}, {b}, {c}}}, -1)
					}
				}
			}
		}
		// 2 threads x 3 ops from the full cache, 3 threads x 2 ops (a third of them per root)
		fam = "2x3 and 3x2 over 6 operations"
		for root := 0; root < baseRoots; root++ {
			var triples, dbl [][]cop
			for i := 0; i < m; i++ {
				for j := 0; j < m; j++ {
					dbl = append(dbl, []cop{alphabet6[i], alphabet6[j]})
					for k := 0; k < m; k++ {
						triples = append(triples, []cop{alphabet6[i], alphabet6[j], alphabet6[k]})
					}
				}
			}
			for _, a := range triples {
				for _, b := range triples {
					if root == 2 {
						add(workload{Root: root, Threads: [][]cop{a, b}}, 1)
					}
				}
			}
			for ai, a := range dbl {
				for bi, b := range dbl {
					for ci, c := range dbl {
						if (ai+bi+ci)%3 == root { // a third of the 3x2 workloads per root
							add(workload{Root: root, Threads: [][]cop{a, b, c}}, 1)
						}
					}
				}
			}
		}
	}
	if !r.Quick() {
		// 2 threads x 3 ops over three conflicting operations with a higher bound
		fam = "2x3 over 3 operations"
		small := []cop{{K: "get", A: 0}, {K: "put", A: 2, V: 1}, {K: "remove", A: 0}}
		var tri [][]cop
		for _, a := range small {
			for _, b := range small {
				for _, c := range small {
					tri = append(tri, []cop{a, b, c})
				}
			}
		}
		for _, a := range tri {
			for _, b := range tri {
				add(workload{Root: 2, Threads: [][]cop{a, b}}, 2)
			}
		}
	}
	return ws, bound
}

// ---- free-running pass (race build) ----

func freeRunning(spec string) {
	// spec: "<gomaxprocs>:<reps>"
	var procs, reps int
	fmt.Sscanf(spec, "%d:%d", &procs, &reps)
	runtime.GOMAXPROCS(procs)
	n := len(alphabet)
	for rep := 0; rep < reps; rep++ {
		for root := 0; root < baseRoots; root++ {
			var nilSched *mc.Sched
			conf := cache.LRU[int, int]().WithSize(func(v int) int64 { return int64(v) }).OnEvict(func(k, v int) {})
			conf = wrapStore(conf, func(in cache.Store[int, int]) cache.Store[int, int] { return seamStore{in, &nilSched} })
			c := cache.New(limit, conf)
			for _, o := range roots[root] {
				doOp(c, o)
			}
			var wg sync.WaitGroup
			for t := 0; t < 4; t++ {
				wg.Add(1)
				go func(t int) {
					defer wg.Done()
					for i := 0; i < n*3; i++ {
						doOp(c, alphabet[(i*7+t*3+rep)%n])
					}
				}(t)
			}
			wg.Wait()
			// Single-class phases: between two calls of the same class there is
			// no call of another class whose locking would order them for the
			// race detector (observers that share a read lock, accessors that
			// update recency), so an unsynchronised write inside them is
			// reported whenever two goroutines make them at all.
			for _, class := range [][]cop{
				{{K: "has", A: 0}, {K: "has", A: 1}, {K: "has", A: 2}, {K: "len"}, {K: "size"}},
				{{K: "has", A: 0}, {K: "has", A: 1}},
				{{K: "get", A: 0}, {K: "get", A: 1}, {K: "get", A: 2}},
				{{K: "len"}, {K: "size"}, {K: "get", A: 1}},
			} {
				for t := 0; t < 4; t++ {
					wg.Add(1)
					go func(t int) {
						defer wg.Done()
						for i := 0; i < 24; i++ {
							doOp(c, class[(i+t)%len(class)])
						}
					}(t)
				}
				wg.Wait()
				doOp(c, cop{K: "put", A: rep % nkeys, V: 1}) // a different present set for the next class
			}
		}
	}
	fmt.Println("free-run done")
}

func runRacePass(r *mc.Run) {
	if *raceBin == "" {
		r.Extra("free_running_race_pass", "race binary not available")
		return
	}
	var runs, reports int64
	var first string
	for _, procs := range []int{1, 2, 4, 16} {
		ctx, cancel := context.WithTimeout(context.Background(), 90*time.Second)
		cmd := exec.CommandContext(ctx, *raceBin, "-free-run", fmt.Sprintf("%d:%d", procs, mc.Pick(r, 50, 200)))
		cmd.Env = append(os.Environ(), "GORACE=halt_on_error=0 exitcode=66")
		out, err := cmd.CombinedOutput()
		hung := ctx.Err() != nil
		cancel()
		runs++
		if hung {
			reports++
			if first == "" {
				first = fmt.Sprintf("the free-running workload (GOMAXPROCS=%d) did not finish within 90 seconds: goroutines are stuck (deadlock)\n%.800s", procs, out)
			}
			break // the other settings would hang as well
		}
		if strings.Contains(string(out), "WARNING: DATA RACE") {
			reports++
			if first == "" {
				first = string(out)
				if len(first) > 1800 {
					first = first[:1800]
				}
			}
		} else if err != nil && !strings.Contains(string(out), "free-run done") {
			reports++
			if first == "" {
				first = fmt.Sprintf("free-running pass failed: %v\n%.1500s", err, out)
			}
		}
	}
	r.Count("free_running_race_runs", runs)
	r.Count("free_running_race_reports", reports)
	if reports > 0 {
		r.Violation(mc.Case{Harness: "race-pass", Trace: mc.J("free-running workloads, real goroutines, -race"), Msg: "free-running pass (real goroutines, real sync, -race): " + first, Step: -1})
	}
}

func main() {
	for i, a := range os.Args {
		if a == "-free-run" && i+1 < len(os.Args) {
			freeRunning(os.Args[i+1])
			return
		}
	}
	shard, nshards := 0, 1
	if s := os.Getenv("VERIF_C09_SHARD"); s != "" {
		fmt.Sscanf(s, "%d/%d", &shard, &nshards)
	}
	mc.Main("C09",
		mc.Harness{
			Name: "sched",
			Explore: func(r *mc.Run) {
				if !controlled || os.Getenv("VERIF_C09_SHIM") != "1" {
					r.NotExhaustive("the sync import of cache/cache.go could not be redirected to the scheduler shim: only the free-running race pass ran")
					r.AddEval(1, 1, 1, 2)
					return
				}
				seamPoints = !r.Quick() // thorough: every Store-seam call is a scheduling point too
				ws, bounds := workloads(r)
				if os.Getenv("VERIF_C09_SHARD") == "" {
					parent(r, len(ws))
					return
				}
				// child: explore every schedule of the workloads of this shard
				var execs, preempted, nwl int64
				outcomes := &mc.KeyCounter{}
				var multi int64
				for i := range ws {
					if i%nshards == shard {
						r.Count("fam:"+families[i]+":workloads", 1)
					}
				}
				for i, w := range ws {
					if i%nshards != shard {
						continue
					}
					if r.Expired() {
						r.NotExhaustive(fmt.Sprintf("tier budget reached after %d of %d workloads of this shard", nwl, len(ws)/nshards))
						break
					}
					oc := &mc.KeyCounter{}
					res := makeDFS(w, bounds[i], oc, &preempted).Run(r)
					execs += res.Executions
					nwl++
					r.Count("fam:"+families[i]+":done", 1)
					r.Count("fam:"+families[i]+":executions", res.Executions)
					if oc.Len() > 1 {
						multi++
					}
					outcomes.Add(fmt.Sprint(oc.Len()))
				}
				r.AddEval(nwl, execs, execs, preempted)
				r.Count("workloads", nwl)
				r.Count("workloads_with_more_than_one_final_outcome", multi)
			},
			Replay: func(c mc.Case) *mc.Failure {
				if !controlled || os.Getenv("VERIF_C09_SHIM") != "1" {
					return nil
				}
				var w workload
				if err := mc.Unmarshal(c.Config, &w); err != nil {
					return mc.Failf(-1, "bad workload: %v", err)
				}
				// the scheduler shim is a process-wide hook: one execution at a time
				replayMu.Lock()
				defer replayMu.Unlock()
				return makeDFS(w, -1, nil, nil).ReplayDevs(c)
			},
		},
		mc.Harness{
			Name: "race-pass",
			Explore: func(r *mc.Run) {
				if os.Getenv("VERIF_C09_SHARD") != "" {
					return
				}
				runRacePass(r)
			},
			Replay: func(c mc.Case) *mc.Failure {
				return mc.Failf(-1, "a race report is not replayable as a schedule; rerun the check")
			},
		},
	)
}

// parent splits the workloads over worker processes (the scheduler shim is a
// process-wide hook, so parallelism is by process) and merges their results.
func parent(r *mc.Run, nworkloads int) {
	n := r.Workers
	dir, err := os.MkdirTemp("", "c09shards")
	if err != nil {
		r.NotExhaustive("cannot create a scratch directory: " + err.Error())
		return
	}
	defer os.RemoveAll(dir)
	type shardOut struct {
		ev   map[string]any
		viol []mc.Case
		err  string
	}
	outs := make([]shardOut, n)
	var wg sync.WaitGroup
	remaining := r.Deadline.Sub(r.Start)
	for k := 0; k < n; k++ {
		wg.Add(1)
		go func(k int) {
			defer wg.Done()
			evf := fmt.Sprintf("%s/ev%d.json", dir, k)
			vf := fmt.Sprintf("%s/viol%d.jsonl", dir, k)
			ctx, cancel := context.WithTimeout(context.Background(), remaining+2*time.Minute)
			defer cancel()
			cmd := exec.CommandContext(ctx, os.Args[0], "-tier", r.Tier, "-only", "sched", "-evidence", evf, "-viol-out", vf, "-no-verdict", "-budget", remaining.String())
			cmd.Env = append(os.Environ(), fmt.Sprintf("VERIF_C09_SHARD=%d/%d", k, n), "GOMAXPROCS=1", "VERIF_WORKERS=1")
			if b, err := cmd.CombinedOutput(); err != nil {
				outs[k].err = fmt.Sprintf("shard %d: %v: %.600s", k, err, b)
				return
			}
			if data, err := os.ReadFile(evf); err == nil {
				json.Unmarshal(data, &outs[k].ev)
			}
			outs[k].viol, _ = mc.ReadCases(vf)
		}(k)
	}
	wg.Wait()
	var states, trans, nontriv, wl, multi float64
	famCount := map[string]int64{}
	exhaustive := true
	for k := range outs {
		if outs[k].err != "" {
			r.NotExhaustive(outs[k].err)
			exhaustive = false
			continue
		}
		cov, _ := outs[k].ev["coverage"].(map[string]any)
		if cov == nil {
			r.NotExhaustive(fmt.Sprintf("shard %d wrote no evidence", k))
			continue
		}
		f := func(key string) float64 { v, _ := cov[key].(float64); return v }
		states += f("states")
		trans += f("transitions")
		nontriv += f("distinct_nontrivial")
		if ex, _ := cov["exhaustive"].(bool); !ex {
			exhaustive = false
		}
		if hs, ok := cov["harnesses"].(map[string]any); ok {
			if h, ok := hs["sched"].(map[string]any); ok {
				if cs, ok := h["counters"].(map[string]any); ok {
					a, _ := cs["workloads"].(float64)
					b, _ := cs["workloads_with_more_than_one_final_outcome"].(float64)
					wl += a
					multi += b
					for name, v := range cs {
						if strings.HasPrefix(name, "fam:") {
							f, _ := v.(float64)
							famCount[name] += int64(f)
						}
					}
				}
			}
		}
		for _, c := range outs[k].viol {
			r.Violation(c)
		}
	}
	// per family: what was fully covered (a budget cut leaves later families incomplete)
	fams := map[string]map[string]any{}
	for name, v := range famCount {
		parts := strings.Split(name, ":")
		if len(parts) != 3 {
			continue
		}
		if fams[parts[1]] == nil {
			fams[parts[1]] = map[string]any{}
		}
		fams[parts[1]][parts[2]] = v
	}
	var incomplete []string
	for f, m := range fams {
		done, _ := m["done"].(int64)
		total, _ := m["workloads"].(int64)
		m["complete"] = done == total
		if done != total {
			incomplete = append(incomplete, fmt.Sprintf("%s (%d of %d workloads)", f, done, total))
		}
	}
	sort.Strings(incomplete)
	r.Extra("workload_families", fams)
	if !exhaustive {
		r.NotExhaustive("at least one shard did not finish within the tier budget; incomplete families: " + strings.Join(incomplete, ", "))
	}
	r.AddEval(int64(states), int64(trans), int64(trans), int64(nontriv))
	r.Count("workloads", int64(wl))
	r.Count("workloads_enumerated", int64(nworkloads))
	r.Count("workloads_with_more_than_one_final_outcome", int64(multi))
	r.Bound("worker_processes", n)
	r.Bound("preemption_bound", mc.Pick(r, "2x2 over 12 operations: 2; 2x2 over 6 operations: 3; 3x1: 2; 4x1 over 6 operations: 1; 2x1: unbounded", "2x2 over 12 operations: 3; 2x2 over 6 operations: 4; 2x3 (full cache) and 3x2 over 6 operations: 1; 2x3 over get/put/remove: 2; 3x1 over 12 operations: 4, over 6 operations: unbounded; 4x1 over 6 operations: 2; 2x1: unbounded"))
	r.Bound("roots", mc.Pick(r, "2x2 over 12 operations: full cache; everything else: empty, half full, full", "empty, half full, full"))
	r.Rule("states = workloads, transitions = complete executions (schedules) of the real Cache under the cooperative scheduler; every schedule within the preemption bound; scheduling points at Lock/Unlock/RLock/RUnlock, every Store-seam call, the eviction callback, operation call and return; non-trivial = executions with at least one preemption")
	r.Assume("sequential consistency; unsynchronised accesses to plain fields are visible only to the separate free-running -race pass (sampling, a complement)")
	r.Sample(wtrace{workload{Root: 2, Threads: [][]cop{{{K: "put", A: 2, V: 1}, {K: "size"}}, {{K: "get", A: 0}, {K: "remove", A: 0}}}}, []mc.Dev{{Pos: 3, Alt: 1}}})
}
