//go:build verif

package main

import (
	"fmt"
	"strings"

	"verif/mc"

	"github.com/creachadair/mds/omap"
	"github.com/creachadair/mds/stree"
)

func init() { mc.HooksEnabled = true }

// hiddenKey renders the tree behind the map: pre-order shape with values and
// the hidden peak-size field.
func hiddenKey(m omap.Map[int, int]) string {
	t := omap.VerifTree(m)
	if t == nil {
		return "zero"
	}
	var sb strings.Builder
	sb.WriteString(mc.Fingerprint(t)) // every scalar field of the tree (size, max, ...)
	sb.WriteByte(' ')
	var walk func(c *stree.Cursor[stree.KV[int, int]])
	walk = func(c *stree.Cursor[stree.KV[int, int]]) {
		if !c.Valid() {
			sb.WriteByte('.')
			return
		}
		fmt.Fprintf(&sb, "(%d=%d", c.Key().Key, c.Key().Value)
		walk(c.Clone().Left())
		walk(c.Clone().Right())
		sb.WriteByte(')')
	}
	walk(t.Root())
	fmt.Fprintf(&sb, " m%d", stree.VerifMax(t))
	return sb.String()
}
