// C18: mapset.Set operations agree with mathematical sets, including nil and
// empty sets. E4 over all operand combinations on the universe {0,1,2}
// (value 3 = never a member) plus an E1 closure over mutation histories.
package main

import (
	"fmt"
	"maps"
	"math"
	"sort"
	"sync/atomic"

	"verif/mc"

	"github.com/creachadair/mds/mapset"
)

const U = 3 // universe 0..U-1

// operand index: 0 = nil, 1 = empty non-nil, 2.. = non-empty subsets by mask.
const nOperands = 1 + (1 << U)

func operand(i int) (mapset.Set[int], int) {
	if i == 0 {
		return nil, 0
	}
	mask := i - 1
	s := make(mapset.Set[int])
	for v := 0; v < U; v++ {
		if mask&(1<<v) != 0 {
			s[v] = struct{}{}
		}
	}
	return s, mask
}

func maskOf(s mapset.Set[int]) (int, bool) {
	m := 0
	for v := range s {
		if v < 0 || v >= U {
			return 0, false
		}
		m |= 1 << v
	}
	return m, true
}

func listMask(vs []int) int {
	m := 0
	for _, v := range vs {
		m |= 1 << v // value 3 sets bit 3: not a member of any set
	}
	return m
}

type tcase struct {
	Fn   string `json:"fn"`
	Ops  []int  `json:"operands,omitempty"`
	Args []int  `json:"args,omitempty"`
	N    int    `json:"n,omitempty"`
}

func check(c tcase) *mc.Failure {
	return mc.GuardT("operands", c, func() *mc.Failure {
		switch c.Fn {
		case "binary":
			s, sm := operand(c.Ops[0])
			t, tm := operand(c.Ops[1])
			if got, want := s.Intersects(t), sm&tm != 0; got != want {
				return mc.Failf(0, "%v.Intersects(%v)=%v want %v", c.Ops[0], c.Ops[1], got, want)
			}
			if got, want := s.IsSubset(t), sm&^tm == 0; got != want {
				return mc.Failf(0, "operand %d IsSubset operand %d = %v want %v (masks %b %b)", c.Ops[0], c.Ops[1], got, want, sm, tm)
			}
			if got, want := s.Equals(t), sm == tm; got != want {
				return mc.Failf(0, "operand %d Equals operand %d = %v want %v (masks %b %b)", c.Ops[0], c.Ops[1], got, want, sm, tm)
			}
			if m, _ := maskOf(s); m != sm {
				return mc.Failf(0, "a predicate modified its receiver")
			}
			if m, _ := maskOf(t); m != tm {
				return mc.Failf(0, "a predicate modified its argument")
			}
		case "self":
			// the same set object as receiver and argument(s)
			s, sm := operand(c.Ops[0])
			if !s.Equals(s) || !s.IsSubset(s) || s.Intersects(s) != (sm != 0) {
				return mc.Failf(0, "operand %d against itself: Equals=%v IsSubset=%v Intersects=%v", c.Ops[0], s.Equals(s), s.IsSubset(s), s.Intersects(s))
			}
			in := mapset.Intersect(s, s, s)
			if m, ok := maskOf(in); in == nil || !ok || m != sm {
				return mc.Failf(0, "Intersect(s, s, s) of operand %d = %v", c.Ops[0], in)
			}
			in[7] = struct{}{}
			if s.Has(7) {
				return mc.Failf(0, "Intersect(s, s, s) aliases s")
			}
			u := s.Clone()
			u.AddAll(u)
			if m, ok := maskOf(u); !ok || m != sm {
				return mc.Failf(0, "s.AddAll(s) on operand %d leaves %v", c.Ops[0], u)
			}
			u.RemoveAll(u)
			if u.Len() != 0 {
				return mc.Failf(0, "s.RemoveAll(s) on operand %d leaves %v", c.Ops[0], u)
			}
		case "intersect":
			var ss []mapset.Set[int]
			want := 1<<U - 1
			for _, o := range c.Ops {
				s, m := operand(o)
				ss = append(ss, s)
				want &= m
			}
			if len(c.Ops) == 0 {
				want = 0
			}
			got := mapset.Intersect(ss...)
			if got == nil {
				return mc.Failf(0, "Intersect(%v) returned nil", c.Ops)
			}
			if m, ok := maskOf(got); !ok || m != want {
				return mc.Failf(0, "Intersect(operands %v) = %v want mask %b", c.Ops, got, want)
			}
			got[7] = struct{}{}
			for i, s := range ss {
				if s.Has(7) {
					return mc.Failf(0, "Intersect result aliases operand %d", i)
				}
			}
		case "intersect-masks":
			// operands given as bit masks over {0,1,2,3}: sets of every size 0..4
			var ss []mapset.Set[int]
			want := uint64(15)
			for _, m := range c.Ops {
				ss = append(ss, bigSet(uint64(m), false))
				want &= uint64(m)
			}
			got := mapset.Intersect(ss...)
			if got == nil {
				return mc.Failf(0, "Intersect(masks %v) returned nil", c.Ops)
			}
			if m, ok := bigMask(got); !ok || m != want {
				return mc.Failf(0, "Intersect of the sets with masks %v over {0,1,2,3} = %v, want mask %b", c.Ops, got, want)
			}
		case "hasall":
			s, sm := operand(c.Ops[0])
			am := listMask(c.Args)
			if got, want := s.HasAll(c.Args...), am&^sm == 0; got != want {
				return mc.Failf(0, "set mask %b (operand %d) HasAll(%v)=%v want %v", sm, c.Ops[0], c.Args, got, want)
			}
			if got, want := s.HasAny(c.Args...), am&sm != 0; got != want {
				return mc.Failf(0, "set mask %b (operand %d) HasAny(%v)=%v want %v", sm, c.Ops[0], c.Args, got, want)
			}
		case "construct":
			// New(items...), Clone, Range, Keys, Values: non-nil, right members, no aliasing.
			s := mapset.New(c.Args...)
			if s == nil {
				return mc.Failf(0, "New(%v) is nil", c.Args)
			}
			if m, ok := maskOf(s); !ok || m != listMask(c.Args) || s.Len() != len(s) {
				return mc.Failf(0, "New(%v) = %v", c.Args, s)
			}
			o, om := operand(c.Ops[0])
			cl := o.Clone()
			if cl == nil {
				return mc.Failf(0, "Clone of operand %d is nil", c.Ops[0])
			}
			if m, ok := maskOf(cl); !ok || m != om {
				return mc.Failf(0, "Clone of operand %d = %v", c.Ops[0], cl)
			}
			cl[7] = struct{}{}
			if o.Has(7) {
				return mc.Failf(0, "Clone aliases its receiver")
			}
			delete(cl, 7)
			if o != nil {
				o[8] = struct{}{}
				if cl.Has(8) {
					return mc.Failf(0, "Clone aliases its receiver")
				}
				delete(o, 8)
			}
			src := map[int]int{}
			for i, v := range c.Args {
				src[i] = v
			}
			ks, vs := mapset.Keys(src), mapset.Values(src)
			if ks == nil || vs == nil || len(ks) != len(src) {
				return mc.Failf(0, "Keys/Values of %v: %v %v", src, ks, vs)
			}
			for k, v := range src {
				if !ks.Has(k) || !vs.Has(v) {
					return mc.Failf(0, "Keys/Values of %v: %v %v", src, ks, vs)
				}
			}
			if m, ok := maskOf(vs); !ok || m != listMask(c.Args) {
				return mc.Failf(0, "Values of %v = %v", src, vs)
			}
			var nilmap map[int]int
			if mapset.Keys(nilmap) == nil || mapset.Values(nilmap) == nil {
				return mc.Failf(0, "Keys/Values of a nil map is nil")
			}
			// Keys for other value types - in particular a Set itself and a
			// map[T]struct{}, which have the representation of the result - must
			// also be fresh, non-nil sets.
			if f := keysFresh(o.Clone(), struct{}{}, "a Set"); f != nil {
				return f
			}
			if f := keysFresh(map[int]struct{}(o.Clone()), struct{}{}, "a map[int]struct{}"); f != nil {
				return f
			}
			strs := map[int]string{}
			for i, v := range c.Args {
				strs[v] = fmt.Sprint(i)
			}
			if f := keysFresh(strs, "x", "a map[int]string"); f != nil {
				return f
			}
			if mapset.Keys(mapset.Set[int](nil)) == nil || mapset.Keys(map[int]struct{}(nil)) == nil || mapset.Keys(map[int]bool(nil)) == nil {
				return mc.Failf(0, "Keys of a nil Set / map[int]struct{} / map[int]bool is nil")
			}
			rg := mapset.Range(func(yield func(int) bool) {
				for _, v := range c.Args {
					if !yield(v) {
						return
					}
				}
			})
			if rg == nil {
				return mc.Failf(0, "Range returned nil")
			}
			if m, ok := maskOf(rg); !ok || m != listMask(c.Args) {
				return mc.Failf(0, "Range(%v) = %v", c.Args, rg)
			}
			// a single-use iterator (it drains a queue): Range may traverse it once only
			queue := append([]int(nil), c.Args...)
			rg1 := mapset.Range(func(yield func(int) bool) {
				for len(queue) > 0 {
					v := queue[0]
					queue = queue[1:]
					if !yield(v) {
						return
					}
				}
			})
			if m, ok := maskOf(rg1); rg1 == nil || !ok || m != listMask(c.Args) {
				return mc.Failf(0, "Range over a single-use iterator yielding %v = %v", c.Args, rg1)
			}
		case "slice":
			o, om := operand(c.Ops[0])
			sl := o.Slice()
			if om == 0 && sl != nil {
				return mc.Failf(0, "Slice of an empty set is %v, want nil", sl)
			}
			if f := members(sl, om, "Slice"); f != nil {
				return f
			}
			// Append after a prefix, with c.N spare capacity behind the prefix.
			prefix := make([]int, len(c.Args), len(c.Args)+c.N)
			copy(prefix, c.Args)
			out := o.Append(prefix)
			if len(out) < len(c.Args) || !mc.EqInts(out[:len(c.Args)], c.Args) {
				return mc.Failf(0, "Append(%v) = %v does not keep the given prefix", c.Args, out)
			}
			if f := members(out[len(c.Args):], om, fmt.Sprintf("Append(prefix %v, spare %d)", c.Args, c.N)); f != nil {
				return f
			}
		default:
			return mc.Failf(0, "unknown case %q", c.Fn)
		}
		return nil
	})
}

// members checks that vs holds each member of mask exactly once and nothing else.
// keysFresh checks that Keys(src) is a non-nil set of the keys of src that
// shares no storage with src (each is changed in turn and the other must not
// follow).
func keysFresh[M ~map[int]U, U any](src M, val U, what string) *mc.Failure {
	ks := mapset.Keys(src)
	if ks == nil {
		return mc.Failf(0, "Keys of %s (%d entries) is nil", what, len(src))
	}
	if len(ks) != len(src) {
		return mc.Failf(0, "Keys of %s with %d entries has %d members", what, len(src), len(ks))
	}
	for k := range src {
		if !ks.Has(k) {
			return mc.Failf(0, "Keys of %s lacks the key %d", what, k)
		}
	}
	ks.Add(77)
	if _, leaked := src[77]; leaked {
		return mc.Failf(0, "Keys of %s aliases its argument: adding to the result changed the argument", what)
	}
	if src != nil {
		src[78] = val
		if ks.Has(78) {
			return mc.Failf(0, "Keys of %s aliases its argument: adding to the argument changed the result", what)
		}
	}
	return nil
}

func members(vs []int, mask int, what string) *mc.Failure {
	got := append([]int(nil), vs...)
	sort.Ints(got)
	var want []int
	for v := 0; v < U; v++ {
		if mask&(1<<v) != 0 {
			want = append(want, v)
		}
	}
	if !mc.EqInts(got, want) {
		return mc.Failf(0, "%s of set %v = %v: each member must occur exactly once", what, want, vs)
	}
	return nil
}

// ---- larger sets (universe 0..63, reference = bit masks) ----

func bigSet(mask uint64, nilIfEmpty bool) mapset.Set[int] {
	if mask == 0 && nilIfEmpty {
		return nil
	}
	s := make(mapset.Set[int])
	for v := 0; v < 64; v++ {
		if mask&(1<<uint(v)) != 0 {
			s[v] = struct{}{}
		}
	}
	return s
}

func bigMask(s mapset.Set[int]) (uint64, bool) {
	var m uint64
	for v := range s {
		if v < 0 || v > 63 {
			return 0, false
		}
		m |= 1 << uint(v)
	}
	return m, true
}

var bigFamily = []uint64{0, 1, 1 << 63, 0x3FF, 0x5555555555, 0x9249249249249249, ^uint64(0), 0xFFFFFFFF, 0xFFFFFFFF00000000, 0x3FF &^ 1, 0xFFFF0000FFFF}

type bigCase struct {
	A, B, C int // indices into bigFamily
}

func checkBig(c bigCase) *mc.Failure {
	return mc.GuardT("big-sets", c, func() *mc.Failure {
		am, bm, cm := bigFamily[c.A], bigFamily[c.B], bigFamily[c.C]
		a, b, cc := bigSet(am, c.A%2 == 0), bigSet(bm, false), bigSet(cm, true)
		if a.Intersects(b) != (am&bm != 0) || a.IsSubset(b) != (am&^bm == 0) || a.Equals(b) != (am == bm) {
			return mc.Failf(0, "predicates on sets %x and %x: Intersects=%v IsSubset=%v Equals=%v", am, bm, a.Intersects(b), a.IsSubset(b), a.Equals(b))
		}
		in := mapset.Intersect(a, b, cc)
		if m, ok := bigMask(in); !ok || in == nil || m != am&bm&cm {
			return mc.Failf(0, "Intersect(%x,%x,%x) = %x", am, bm, cm, m)
		}
		if b.HasAll(a.Slice()...) != (am&^bm == 0) || b.HasAny(a.Slice()...) != (am&bm != 0) {
			return mc.Failf(0, "HasAll/HasAny of set %x with the elements of %x", bm, am)
		}
		sl := b.Slice()
		if len(sl) != len(b) {
			return mc.Failf(0, "Slice of %x has %d elements", bm, len(sl))
		}
		ap := cc.Append(append(make([]int, 0, 3), -1, -2))
		if len(ap) != len(cc)+2 || ap[0] != -1 || ap[1] != -2 {
			return mc.Failf(0, "Append after a prefix on set %x gives %d elements", cm, len(ap))
		}
		// mutations: union, difference, removal of a list, clone independence
		u := a.Clone()
		u.AddAll(b)
		if m, _ := bigMask(u); m != am|bm {
			return mc.Failf(0, "Clone(%x).AddAll(%x) = %x", am, bm, m)
		}
		u.RemoveAll(cc)
		if m, _ := bigMask(u); m != (am|bm)&^cm {
			return mc.Failf(0, "RemoveAll(%x) from %x = %x", cm, am|bm, m)
		}
		d := b.Clone()
		d.Remove(append(a.Slice(), 64, 65, 64)...)
		if m, _ := bigMask(d); m != bm&^am {
			return mc.Failf(0, "Remove(elements of %x and absent values) from %x = %x", am, bm, m)
		}
		if m, _ := bigMask(a); m != am {
			return mc.Failf(0, "an operation on a clone changed the original %x -> %x", am, m)
		}
		if m, _ := bigMask(b); m != bm {
			return mc.Failf(0, "an operation changed its argument %x -> %x", bm, m)
		}
		n := len(d)
		for len(d) > 0 {
			v := d.Pop()
			if bm&^am&(1<<uint(v)) == 0 || d.Has(v) {
				return mc.Failf(0, "Pop returned %d from %x", v, bm&^am)
			}
			n--
		}
		if n != 0 {
			return mc.Failf(0, "Pop removed a different number of elements")
		}
		return nil
	})
}

// ---- mutation histories (E1) ----

var fromEmpty int64

type mop struct {
	K     string `json:"k"` // add addall remove removeall clear
	Items []int  `json:"items,omitempty"`
	Arg   int    `json:"arg,omitempty"` // operand index
}

func (o mop) String() string { return fmt.Sprintf("%s(%v,%d)", o.K, o.Items, o.Arg) }

type minst struct {
	s    mapset.Set[int]
	ref  int // mask
	isn  bool
	pops *int64
}

func (m *minst) Enabled() []mop {
	var ops []mop
	for _, items := range mc.AllSeqs(U, 2) {
		ops = append(ops, mop{K: "add", Items: items}, mop{K: "remove", Items: items})
	}
	for o := 0; o < nOperands; o++ {
		ops = append(ops, mop{K: "addall", Arg: o}, mop{K: "removeall", Arg: o})
	}
	return append(ops, mop{K: "clear"})
}

func (m *minst) Key() string { return fmt.Sprintf("%v/%b", m.s == nil, m.ref) }

func (m *minst) Apply(o mop, check bool) *mc.Failure {
	var ret mapset.Set[int]
	wasNil := m.s == nil
	other := m.s // a second handle on the same set: a Set is a map, copies share its contents
	if check && len(m.s) == 0 {
		atomic.AddInt64(&fromEmpty, 1)
	}
	switch o.K {
	case "add":
		ret = (&m.s).Add(o.Items...)
		m.ref |= listMask(o.Items)
	case "remove":
		ret = m.s.Remove(o.Items...)
		m.ref &^= listMask(o.Items)
	case "addall":
		t, tm := operand(o.Arg)
		ret = (&m.s).AddAll(t)
		m.ref |= tm
		if check {
			if mm, _ := maskOf(t); mm != tm {
				return mc.Failf(0, "AddAll modified its argument")
			}
			// the receiver must not alias the argument afterwards
			if m.s != nil {
				m.s[9] = struct{}{}
				if t.Has(9) {
					return mc.Failf(0, "after AddAll on a %v receiver the receiver aliases the argument", map[bool]string{true: "nil", false: "non-nil"}[wasNil])
				}
				delete(m.s, 9)
			}
		}
	case "removeall":
		t, tm := operand(o.Arg)
		ret = m.s.RemoveAll(t)
		m.ref &^= tm
		if mm, _ := maskOf(t); check && mm != tm {
			return mc.Failf(0, "RemoveAll modified its argument")
		}
	case "clear":
		ret = m.s.Clear()
		m.ref = 0
	}
	if !check {
		return nil
	}
	if (o.K == "add" || o.K == "addall") && m.s == nil {
		return mc.Failf(0, "%v left a nil receiver nil", o)
	}
	if len(ret) != len(m.s) || (ret == nil) != (m.s == nil) {
		return mc.Failf(0, "%v did not return the receiver set", o)
	}
	if !wasNil {
		// a mutation through one handle of a non-nil set is seen through every other
		if mo, ok := maskOf(other); !ok || mo != m.ref || len(other) != len(m.s) {
			return mc.Failf(0, "after %v on a non-nil set (%d members before) a copy of the Set value taken before the call holds %v, the receiver %v: the call rebound the receiver instead of changing the set", o, len(other), other, m.s)
		}
	}
	if mm, ok := maskOf(m.s); !ok || mm != m.ref || m.s.Len() != len(m.s) || m.s.IsEmpty() != (m.ref == 0) {
		return mc.Failf(0, "after %v the set is %v, want mask %b", o, m.s, m.ref)
	}
	for v := 0; v <= U; v++ {
		if m.s.Has(v) != (m.ref&(1<<v) != 0) {
			return mc.Failf(0, "after %v: Has(%d)=%v", o, v, m.s.Has(v))
		}
	}
	// Pop probe on a copy (Pop's choice is the one nondeterministic answer
	// the harness does not control; the oracle accepts any member).
	cp := maps.Clone(m.s)
	before := len(cp)
	got := mapset.Set[int](cp).Pop()
	atomic.AddInt64(m.pops, 1)
	if before == 0 {
		if got != 0 || len(cp) != 0 {
			return mc.Failf(0, "Pop on an empty set returned %d", got)
		}
	} else if m.ref&(1<<got) == 0 || len(cp) != before-1 || mapset.Set[int](cp).Has(got) {
		return mc.Failf(0, "Pop returned %d from %v leaving %v", got, m.s, cp)
	}
	return nil
}

func makeBFS(pops *int64) *mc.BFS[mop] {
	return &mc.BFS[mop]{
		Name: "mutations", Config: "universe {0,1,2}", NRoots: nOperands + 1, Merge: true,
		Root: func(i int) (mc.Inst[mop], *mc.Failure) {
			if i == nOperands {
				return &minst{s: mapset.NewSize[int](4), pops: pops}, nil
			}
			s, m := operand(i)
			return &minst{s: s, ref: m, pops: pops}, nil
		},
	}
}

// nanHistory runs one history on a Set[float64] whose members may include
// NaN. NaN differs from every value including itself, so as a mathematical
// set every added NaN is one more distinct member that no lookup or Remove
// can name: the reference is the mask of ordinary members plus a NaN count.
// Ops: 0 Add(NaN), 1 Add(1), 2 Add(NaN,2), 3 Remove(NaN), 4 Remove(1),
// 5 Clear, 6 RemoveAll(self clone), 7 AddAll({NaN,2}).
// Pop is left out on purpose: a NaN member cannot be deleted through the map
// API, so Pop on such a set is outside what the property can state.
func nanHistory(ops []int) *mc.Failure {
	nan := math.NaN()
	var s mapset.Set[float64]
	nans, mem := 0, map[float64]bool{}
	for step, op := range ops {
		switch op {
		case 0:
			s.Add(nan)
			nans++
		case 1:
			s.Add(1)
			mem[1] = true
		case 2:
			s.Add(nan, 2)
			nans++
			mem[2] = true
		case 3:
			s.Remove(nan)
		case 4:
			s.Remove(1)
			delete(mem, 1)
		case 5:
			s.Clear()
			nans, mem = 0, map[float64]bool{}
		case 6:
			s.RemoveAll(s.Clone()) // removes the ordinary members; the clone's NaNs name nothing
			mem = map[float64]bool{}
		case 7:
			s.AddAll(mapset.New(nan, 2))
			nans++
			mem[2] = true
		}
		if s.Len() != nans+len(mem) || s.IsEmpty() != (nans+len(mem) == 0) {
			return mc.Failf(step, "Len=%d IsEmpty=%v want %d members (%d NaN) after %v", s.Len(), s.IsEmpty(), nans+len(mem), nans, ops[:step+1])
		}
		if s.Has(nan) || s.Has(1) != mem[1] || s.Has(2) != mem[2] || s.Has(3) {
			return mc.Failf(step, "membership after %v: Has(NaN)=%v Has(1)=%v Has(2)=%v", ops[:step+1], s.Has(nan), s.Has(1), s.Has(2))
		}
		gotN := 0
		for _, v := range s.Slice() {
			if v != v {
				gotN++
			} else if !mem[v] {
				return mc.Failf(step, "Slice holds %v, not a member", v)
			}
		}
		if gotN != nans || len(s.Slice()) != nans+len(mem) {
			return mc.Failf(step, "Slice has %d NaN of %d elements, want %d of %d", gotN, len(s.Slice()), nans, nans+len(mem))
		}
		if c := s.Clone(); c == nil || c.Len() != s.Len() {
			return mc.Failf(step, "Clone has %d members, want %d", c.Len(), s.Len())
		}
	}
	return nil
}

func main() {
	var pops int64
	mc.Main("C18",
		mc.Harness{
			Name: "operands",
			Explore: func(r *mc.Run) {
				var cases []tcase
				for a := 0; a < nOperands; a++ {
					for b := 0; b < nOperands; b++ {
						cases = append(cases, tcase{Fn: "binary", Ops: []int{a, b}})
					}
				}
				for _, ops := range mc.AllSeqs(nOperands, 3) {
					cases = append(cases, tcase{Fn: "intersect", Ops: ops})
				}
				for a := 0; a < nOperands; a++ {
					cases = append(cases, tcase{Fn: "self", Ops: []int{a}})
				}
				// four and five operands of every size over a universe of four
				for _, ops := range mc.AllSeqs(16, 4) {
					if len(ops) == 4 {
						cases = append(cases, tcase{Fn: "intersect-masks", Ops: ops})
					}
				}
				five := mc.Pick(r, []int{0, 1, 3, 6, 7, 9, 14, 15}, []int{0, 1, 2, 3, 5, 6, 7, 8, 9, 11, 12, 13, 14, 15})
				for _, idx := range mc.AllSeqs(len(five), 5) {
					if len(idx) == 5 {
						ops := make([]int, 5)
						for i, k := range idx {
							ops[i] = five[k]
						}
						cases = append(cases, tcase{Fn: "intersect-masks", Ops: ops})
					}
				}
				argLen := mc.Pick(r, 4, 5)
				for a := 0; a < nOperands; a++ {
					for _, args := range mc.AllSeqs(U+1, argLen) {
						cases = append(cases, tcase{Fn: "hasall", Ops: []int{a}, Args: args})
					}
					for _, args := range mc.AllSeqs(U, 3) {
						cases = append(cases, tcase{Fn: "construct", Ops: []int{a}, Args: args})
						for spare := 0; spare <= 9; spare++ {
							cases = append(cases, tcase{Fn: "slice", Ops: []int{a}, Args: args, N: spare})
						}
					}
				}
				var nontriv int64
				mc.ParallelFor(len(cases), r.Workers, func(i int) {
					if f := check(cases[i]); f != nil {
						r.Violation(mc.Case{Harness: "operands", Trace: mc.J(cases[i]), Msg: f.Msg})
					}
					for _, o := range cases[i].Ops {
						if o <= 1 { // nil or empty operand involved
							atomic.AddInt64(&nontriv, 1)
							break
						}
					}
				})
				n := int64(len(cases))
				r.AddEval(n, n, n, nontriv)
				r.Bound("universe", "{0,1,2}; 3 as a value that is never a member")
				r.Bound("operands", "nil, empty non-nil, the 7 non-empty subsets")
				r.Rule("Intersects/IsSubset/Equals on all 9x9 operand pairs; Intersect over all operand lists of length 0..3, and over all 4-lists (5-lists of 8/14 of them) of the 16 subsets of a 4-element universe; HasAll/HasAny over all argument lists up to the bound incl. duplicates and non-members; New/Clone/Range/Keys/Values non-nil-ness and aliasing; Slice/Append with prefixes and spare capacity 0..9; non-trivial = cases involving a nil or empty operand")
				r.Sample(tcase{Fn: "hasall", Ops: []int{2}, Args: []int{0, 0}})
			},
			Replay: func(c mc.Case) *mc.Failure {
				var t tcase
				if err := mc.Unmarshal(c.Trace, &t); err != nil {
					return mc.Failf(-1, "bad trace: %v", err)
				}
				return check(t)
			},
		},
		mc.Harness{
			Name: "nan-sets",
			Explore: func(r *mc.Run) {
				depth := mc.Pick(r, 4, 6)
				total := 1
				for i := 0; i < depth; i++ {
					total *= 8
				}
				var evals, nontriv int64
				mc.ParallelFor(total, r.Workers, func(i int) {
					ops := make([]int, depth)
					hasNaN := false
					for j, x := 0, i; j < depth; j, x = j+1, x/8 {
						ops[j] = x % 8
						hasNaN = hasNaN || ops[j] == 0 || ops[j] == 2 || ops[j] == 7
					}
					if f := mc.Guard(func() *mc.Failure { return nanHistory(ops) }); f != nil {
						r.Violation(mc.Case{Harness: "nan-sets", Trace: mc.J(ops), Msg: f.Msg})
					}
					atomic.AddInt64(&evals, 1)
					if hasNaN {
						atomic.AddInt64(&nontriv, 1)
					}
				})
				r.AddEval(evals, evals*int64(depth), evals, nontriv)
				r.Rule(fmt.Sprintf("Set[float64] from nil: every history of %d steps over Add(NaN), Add(1), Add(NaN,2), Remove(NaN), Remove(1), Clear, RemoveAll(clone), AddAll({NaN,2}); after every step Len/IsEmpty/Has/Slice/Clone against ordinary members + a count of NaN members (each NaN is distinct and unnameable); Pop excluded; non-trivial = histories that add a NaN", depth))
				r.Sample([]int{0, 1, 5})
			},
			Replay: func(c mc.Case) *mc.Failure {
				var ops []int
				if err := mc.Unmarshal(c.Trace, &ops); err != nil {
					return mc.Failf(-1, "bad trace: %v", err)
				}
				return mc.Guard(func() *mc.Failure { return nanHistory(ops) })
			},
		},
		mc.Harness{
			Name: "big-sets",
			Explore: func(r *mc.Run) {
				n := len(bigFamily)
				var evals int64
				mc.ParallelFor(n*n*n, r.Workers, func(i int) {
					c := bigCase{i % n, (i / n) % n, i / (n * n)}
					if f := checkBig(c); f != nil {
						r.Violation(mc.Case{Harness: "big-sets", Trace: mc.J(c), Msg: f.Msg})
					}
					atomic.AddInt64(&evals, 1)
				})
				r.AddEval(evals, evals, evals, evals)
				r.Rule("all triples from a family of 11 sets over the universe 0..63 (empty, nil, singletons, dense, strided, halves, full): predicates, Intersect, HasAll/HasAny with the other set's elements, Slice/Append, AddAll/RemoveAll/Remove on clones, Pop to exhaustion; reference = bit masks")
				r.Sample(bigCase{3, 5, 6})
			},
			Replay: func(c mc.Case) *mc.Failure {
				var b bigCase
				if err := mc.Unmarshal(c.Trace, &b); err != nil {
					return mc.Failf(-1, "bad trace: %v", err)
				}
				return checkBig(b)
			},
		},
		mc.Harness{
			Name: "mutations",
			Explore: func(r *mc.Run) {
				makeBFS(&pops).Run(r)
				// non-trivial: transitions out of a nil or empty receiver (lazy allocation, early exits)
				r.AddEval(0, 0, 0, atomic.LoadInt64(&fromEmpty))
				r.Count("pop_probes", pops)
				r.Rule("BFS to closure over Add/Remove (all item lists up to 2), AddAll/RemoveAll (all 9 operands), Clear from every operand as the initial receiver incl. nil; Pop probed on a copy of every state")
			},
			Replay: func(c mc.Case) *mc.Failure { return makeBFS(new(int64)).Replay(c) },
		},
	)
}
