#!/usr/bin/env python3
"""Regenerates /verif/MANIFEST.json from the table below. A property is
claimed only when its check directory exists; everything else is listed under
not_applicable with the reason 'not built yet' so the manifest is always
valid and honest."""
import json, os

VERIF = os.path.dirname(os.path.dirname(os.path.abspath(__file__)))

LONG = " In addition (not exhaustive, single fixed executions with the same oracle after every step): "

CHECKS = {
 "C01": dict(engine="E1+E2", ref="8/C01",
   technique="explicit-state BFS over real trees (all 1001 balance factors) + deviation-bounded DFS over long adversarial histories, reference sorted set as oracle",
   text="Every operation history over K tagged keys is explored to closure on the real stree.Tree for every beta in 0..1000, states merged by tree shape+max; all observers compared with a sorted-slice reference after every transition; long rebuild-forcing histories explored with all <=d single-step deviations.",
   note="Small scope: K keys, bounded deviations; canonical key = shape+max+beta+a reflective fingerprint of the struct; clone probes incl. a divergent clone; an unmerged enumeration of all histories to depth 4/5 on 3 keys; comparator is a total order."),
 "C02": dict(engine="E1+E2", ref="8/C02",
   technique="explicit-state BFS + deviation-bounded DFS on the real tree, exact integer depth oracle after every step",
   text="Depth bound checked with exact big-integer arithmetic after every transition of the C01 state spaces, after every step of long adversarial histories with <=d deviations, and after every step of deep histories (1100-1700 keys quick, 6000-24000 thorough) at the strict and the near-1000 balance factors where a wrong scapegoat choice or limit only shows late; New(n keys) height checked for every n up to the bound.",
   note="Small scope; P tracked by the harness as the property defines it; comparator-call counting through a wrapped comparator."),
 "C03": dict(engine="E1", ref="8/C03",
   technique="exhaustive enumeration of all BST shapes up to n nodes x all cursor states x all moves and all bounded move sequences on real cursors",
   text="All binary-search-tree shapes up to the bound (built in the real tree with beta=1000) and every reachable cursor position/move pair plus all move sequences to a depth with clones are compared with an independent reference cursor; Tree.Cursor/Next/Prev are also checked after every step of long operation histories (with removals and rebuilds) at several balance factors.",
   note="Shapes up to 8/10 nodes (pairs) and 6/7 nodes (sequences of 4/5 moves); reference cursor written from the documentation."),
 "C04": dict(engine="E1", ref="8/C04",
   technique="explicit-state BFS over real omap.Map histories, sorted reference map oracle incl. all iterator walks and seeks per state",
   text="All Set/Delete/Clear histories over K keys to closure, natural and reversed comparator, every Seek target and full Next/Prev walk per state, zero Map and copy semantics.",
   note="Small scope K<=6 keys, 2 values; a second search with 7/8 keys and one value; an unmerged enumeration to depth 5/6; all 4/5-step histories of a float64-keyed map over NaN, +-Inf and three ordinary keys."+LONG+"maps of 300/700 keys."),
 "C05": dict(engine="E1", ref="8/C05",
   technique="explicit-state BFS over real heapq.Queue histories with multiset/minimality oracle; known-findings differential against a counterfactually repaired build",
   text="All Add/Pop/Remove(i)/Set/Reorder/Clear/NewWithData histories over V values up to N elements explored to closure, merged by heap array; Front/Pop minimality, Remove=Peek, multiset conservation and sorted drain checked at every transition; Sort checked on all short sequences.",
   note="Small scope (V values, N elements) + an unmerged enumeration to depth 5/6. Known findings F1/F2 are excused only when a textual repair of their call sites makes the same case pass."+LONG+"heap-long, 17..513/2049 elements."),
 "C06": dict(engine="E1", ref="8/C06",
   technique="explicit-state BFS over real heapq.Queue with update callback, last-reported-position oracle",
   text="All histories over distinct elements with a recording update callback; after every transition last reported position == Peek offset for every held element; Add's return value; Remove(pos) removes that element.",
   note="Small scope + an unmerged enumeration to depth 5/6 + a configuration in which distinct elements tie under the order; independent of heap-order validity."+LONG+"heap-long, 17..1025/4097 elements."),
 "C07": dict(engine="E1", ref="8/C07",
   technique="explicit-state BFS to closure over real queue.Queue objects, slice-deque reference, poisoned-dead-slot twin",
   text="Every reachable (head,n,len,cap) state of the ring buffer up to the length bound from 9 initial capacities, every operation from each, all observers (Len IsEmpty Front Peek(+-) Each Slice) compared with a reference deque; a twin with poisoned dead slots must observe identically.",
   note="Length bound 72/200; an unmerged enumeration to depth 7/9; parametricity in the element type; hook reads head/n/len/cap."+LONG+"queue-long: every preallocated capacity 1..40 and around powers of two up to 1025/16385 x every head offset, filled exactly and grown."),
 "C08": dict(engine="E1", ref="8/C08",
   technique="explicit-state BFS over the real cache.Cache+LRU store, list-based LRU reference incl. exact eviction callback sequences; known-findings differential",
   text="All Put/Get/Has/Remove/Clear histories for unit and variable sizes to closure under the key/limit bounds, states merged by heap layout of clock ranks; results, Len, Size and the exact callback sequence compared after every transition.",
   note="Small scope (limits up to 5 unreduced in quick, key-symmetric reduction beyond) + an unmerged enumeration to depth 5. F2 excused only via counterfactual repair."+LONG+"lru-long: histories of 70,000 / 4M calls (one of 2^31) on limits 2..300."),
 "C09": dict(engine="E3", ref="8/C09",
   technique="stateless model checking of the real Cache under a controlled cooperative scheduler: all schedules within a preemption bound, linearizability search, vector-clock race check at the Store seam, deadlock detection; separate free-running -race pass",
   text="Every schedule (preemption-bounded) of every small workload over 3 keys is executed on the real Cache with its sync import redirected to a scheduler shim; each execution is checked for linearizability against the LRU reference incl. callbacks, Size<=limit, exactly-once eviction reports, happens-before races at the Store seam, deadlock and panics.",
   note="Scheduling points at mutex operations, operation calls and the eviction callback (thorough: also every Store-seam call); parallelism by worker processes; plain field races left to the separate free-running -race pass (sampling, complement)."),
 "C10": dict(engine="E1", ref="8/C10",
   technique="explicit-state BFS over real stack/mlink.Queue/mlink.List+cursors/ring structures with picture-derived reference models, hang watchdog",
   text="All operation histories within length bounds on the real containers; list cursors tracked by predecessor identity; stale cursors must panic 'invalid cursor' without changing the list; ring Join/Pop on every ordered pair of every cycle partition.",
   note="Small scope (list length <=5/6, 3/4 cursors, ring <=6/7 elements, stack merged on (len,cap) up to 70/300)."+LONG+"list-long, seq-long (pseudo-random walks through the same alphabets with large bounds), ring-long (8..257/1025 elements)."),
 "C11": dict(engine="E4", ref="8/C11",
   technique="bounded-exhaustive enumeration of all input pairs over small alphabets, script executor + DP LCS oracle",
   text="Every pair of sequences up to the length bounds is run through the real EditScript; validity, span identity, minimality (DP LCS length) and canonical form checked on each.",
   note="Alphabets of 2-4 symbols, lengths per tier; both arguments as views of one array."+LONG+"described pairs at sizes around powers of two up to 4097/65537."),
 "C12": dict(engine="E4", ref="8/C12",
   technique="bounded-exhaustive enumeration of all sequences/pairs, DP and 2^n brute-force oracles",
   text="Every sequence/pair within bounds through LCS/LIS/LNDS (+Func variants, reversed comparison); subsequence-ness, monotonicity, optimal length, input unmodified.",
   note="Small alphabets and lengths; aliased arguments; comparison callbacks that panic part-way before an ordinary call; float64 (NaN, signed zeros, infinities) and string element types."+LONG+"described pairs up to 4097/65537, sequences up to 300/2500."),
 "C13": dict(engine="E4", ref="8/C13",
   technique="bounded-exhaustive enumeration of all line-sequence pairs x all context sizes, chunk replay oracle",
   text="Every pair over small alphabets and every n: chunks after New/AddContext/Unify replay exactly to their ranges, context bounded by n, ordering/disjointness, splice gives Right, Edits undisturbed.",
   note="Alphabets {a,b},{a,b,c}; lengths per tier; Left and Right as views of one array; AddContext called a second time on chunks that already overlap."+LONG+"files of 12..300/2500 lines with an edit every gap+1 lines, and of 33,000/65,600 lines."),
 "C14": dict(engine="E4", ref="8/C14",
   technique="bounded-exhaustive enumeration of diffs incl. hostile lines: format/parse round trip and reference patch appliers (GNU patch as second verdict)",
   text="Every enumerated diff is formatted (normal/unified/context), parsed back, re-formatted byte-identically and applied to Left by reference appliers written from the diffutils manual; /usr/bin/patch gives a second verdict when present.",
   note="Reference appliers validated against GNU patch 2.7.6; F5 is a known finding."+LONG+"files of 12..1100/10100 lines, lines of up to 64 KiB / 1 MiB."),
 "C15": dict(engine="E4", ref="8/C15",
   technique="bounded-exhaustive enumeration of byte strings and lists, independent POSIX quoting scanner oracle, real shells as second verdict, call-sequence enumeration for pooled state",
   text="All strings up to the bounds (every byte value) through Quote/Join/Split round trips and an independent scanner proving no special byte is left unquoted; all pairs/triples of calls for pool state.",
   note="POSIX list of special characters copied from the standard; dash/bash used when present."),
 "C16": dict(engine="E4+E2", ref="8/C16",
   technique="bounded-exhaustive enumeration of inputs over the tokenizer's byte classes against a reference tokenizer; exhaustive enumeration of reader fragmentations and Rest points (choice tree over environment answers)",
   text="All strings to the length bound vs an independent POSIX tokenizer with measured (state,class) and transition-pair coverage; every fragmentation of every string to a bound, EOF-with-data and error injection at each position, Rest after every token.",
   note="Reference tokenizer written from POSIX 2.2; validated against dash/bash when present. Reset after old readers ending in EOF or in another error in every tokenizer state; Rest called once and twice."),
 "C17": dict(engine="E4", ref="8/C17",
   technique="bounded-exhaustive enumeration of slices, keep patterns and numeric arguments with naive reference functions and aliasing oracle",
   text="All slices up to the length bound with spare capacity 0..2, all 2^n predicates, all k/n in and around the valid range; contents, order, identity/aliasing, capacity clipping (cap == len) and documented panics.",
   note="Distinct ints; lengths 0..12/16; arguments at the ends of the int range; Stripe over up to 9/11 rows."+LONG+"Partition/Chunks/Batches on lengths 17..257, Rotate up to 130/300."),
 "C18": dict(engine="E1+E4", ref="8/C18",
   technique="exhaustive enumeration of all operand combinations over a 3-element universe incl. nil/empty + BFS over mutation histories",
   text="Every predicate/operation on all operand pairs and argument lists; mutation histories to closure with membership/Len after each step; non-nil-ness and non-aliasing of returned sets.",
   note="Universe {0,1,2} (Intersect also over all 4-lists of the subsets of a 4-element universe; operands aliased with the receiver; Keys on Set-typed arguments; all 4/6-step histories of a float set with NaN members, Pop excluded there); map iteration order is the only uncontrolled nondeterminism and the oracle is insensitive to it."),
 "C19": dict(engine="E2", ref="8/C19",
   technique="exhaustive enumeration of all behaviour-relevant random outcomes (choice tree over the RNG) on the real Counter with exact rational probability propagation",
   text="For every stream within bounds the real Counter is run under every partition class of the random source; exact regime, Len<=size, Count=Len*2^k monotone, and E[Count]==true distinct count exactly (rational arithmetic), plus per-step martingale conditions.",
   note="RNG injected through an overlay-added constructor; the order of the halving pass is chosen by the harness through a one-line source transformation; which bits of a random word matter is probed, and the threshold use of the keep test is verified - otherwise the configuration is reported exhaustive:false instead of judged. Two side harnesses use the real constructor: the exact regime for element types any, *int and string (all streams <= 5/6 incl. the nil interface), and one fixed execution that four counters from NewCounter do not replay one another's random outcomes (precondition of the statistical clause; not an enumeration)."),
 "C20": dict(engine="E4", ref="8/C20",
   technique="bounded-exhaustive enumeration of byte slices at all alignments with guard bytes; all strings/cut points; full transitivity cube",
   text="Every length/alignment/zero-pattern for mbits with both guard values; every string over mixed-width runes and every cut for Trunc; all triples for CompareNatural.",
   note="Lengths per tier; checkptr build for allocation-edge reads; digit runs up to 18 digits under common prefixes of every length 0..17; leading runs of equal value must leave the answer to the remainders."+LONG+"byte slices up to 300/4097."),
}

def main():
    checks, na = [], []
    for pid in sorted(CHECKS):
        c = CHECKS[pid]
        if not os.path.isdir(os.path.join(VERIF, "checks", pid.lower())):
            na.append({"property_id": pid, "reason": "check not built yet in this revision (planned, see DESIGN.md section 8); not a statement that model checking cannot apply"})
            continue
        checks.append({
            "property_id": pid,
            "quick_cmd": "./check %s quick" % pid,
            "thorough_cmd": "./check %s thorough" % pid,
            "evidence_file": "/verif/evidence/%s.json" % pid,
            "replay_cmd_template": "./check %s --replay {path}" % pid,
            "engine": c["engine"],
            "level_claimed": {"category": "model_checking", "text": c["text"], "design_ref": c["ref"]},
            "level_note": c["note"],
            "technique": c["technique"],
        })
    m = {
        "version": 1,
        "setup_cmd": "./check setup",
        "hooks": {
            "guard": "verif",
            "enable": "go build -tags verif -overlay /verif/.build/<ID>/overlay.json (hook files under /verif/hooks are ADDED to mds packages by the overlay; /repo is not edited)",
            "baseline_off_cmd": "cd /repo && GOFLAGS=-mod=mod GOPROXY=off GOSUMDB=off GOTOOLCHAIN=local go test -vet=off -count=1 ./...",
            "source_commits": [],
            "add_only": True,
        },
        "engines": [
            {"name": "E1", "path": "/verif/mc/bfs.go", "kind_free_text": "explicit-state BFS over real objects with canonical state keys and shortest-path replay",
             "serves_properties": [p for p in sorted(CHECKS) if "E1" in CHECKS[p]["engine"]]},
            {"name": "E2", "path": "/verif/mc/choice.go", "kind_free_text": "stateless choice-tree DFS with deviation bounding (histories, environment answers, RNG outcomes)",
             "serves_properties": [p for p in sorted(CHECKS) if "E2" in CHECKS[p]["engine"]]},
            {"name": "E3", "path": "/verif/mc/sched.go", "kind_free_text": "controlled cooperative scheduler (preemption-bounded schedule enumeration, vector clocks, deadlock detection)",
             "serves_properties": ["C09"]},
            {"name": "E4", "path": "/verif/mc/enum.go", "kind_free_text": "bounded-exhaustive input enumeration against reference functions",
             "serves_properties": [p for p in sorted(CHECKS) if "E4" in CHECKS[p]["engine"]]},
        ],
        "checks": checks,
        "not_applicable": na,
        "notes": "All checks: ./check <ID> quick|thorough; known findings in /verif/known_findings.json (DESIGN.md section 7).",
    }
    json.dump(m, open(os.path.join(VERIF, "MANIFEST.json"), "w"), indent=1)
    print("claimed:", [c["property_id"] for c in checks])

main()
