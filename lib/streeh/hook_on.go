//go:build verif

package streeh

import (
	"verif/mc"

	"github.com/creachadair/mds/stree"
)

func init() { mc.HooksEnabled = true }

func hiddenMax(t *stree.Tree[Elem]) int { return stree.VerifMax(t) }
