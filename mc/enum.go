package mc

import (
	"encoding/json"
	"strconv"
	"time"
)

// AllSeqs returns every sequence over 0..vals-1 of length 0..maxLen, shortest
// first (bounded-exhaustive input enumeration, E4).
func AllSeqs(vals, maxLen int) [][]int {
	out := [][]int{{}}
	lo := 0
	for l := 1; l <= maxLen; l++ {
		hi := len(out)
		for _, p := range out[lo:hi] {
			for v := 0; v < vals; v++ {
				out = append(out, append(append(make([]int, 0, l), p...), v))
			}
		}
		lo = hi
	}
	return out
}

// EqInts reports whether two int slices have equal contents.
func EqInts(a, b []int) bool {
	if len(a) != len(b) {
		return false
	}
	for i := range a {
		if a[i] != b[i] {
			return false
		}
	}
	return true
}

// Guard runs one check of the code under test; a panic that escapes it is a
// violation (the documented panics are asserted inside the checks).
func Guard(f func() *Failure) (out *Failure) {
	defer func() {
		if p := recover(); p != nil {
			out = Failf(0, "panic: %v", p)
		}
	}()
	return f()
}

// BStr is a byte string that survives JSON: it is written as its Go-quoted
// form (strconv.Quote), so bytes that are not valid UTF-8 are preserved.
type BStr string

// MarshalJSON implements json.Marshaler.
func (b BStr) MarshalJSON() ([]byte, error) {
	return json.Marshal(strconv.Quote(string(b)))
}

// UnmarshalJSON implements json.Unmarshaler.
func (b *BStr) UnmarshalJSON(data []byte) error {
	var q string
	if err := json.Unmarshal(data, &q); err != nil {
		return err
	}
	s, err := strconv.Unquote(q)
	if err != nil {
		return err
	}
	*b = BStr(s)
	return nil
}

// GuardT is Guard for one enumerated case: it also registers the case with the
// hang watchdog, so that a call that never returns is reported as a violation
// of that case instead of stalling the check.
func GuardT(harness string, trace any, f func() *Failure) *Failure {
	done := InFlight(func() Case { return Case{Harness: harness, Trace: J(trace), Msg: "enumerated case"} })
	defer done()
	return Guard(f)
}

// GuardTL is GuardT with its own hang limit, for cases that are known to take
// long (quadratic algorithms on tens of thousands of elements).
func GuardTL(harness string, trace any, limit time.Duration, f func() *Failure) *Failure {
	done := InFlightLimit(func() Case { return Case{Harness: harness, Trace: J(trace), Msg: "enumerated case"} }, limit)
	defer done()
	return Guard(f)
}

// ForStrings calls f for every string over alpha of length 0..maxLen without
// materialising the list (strings of one length are indexed in base
// len(alpha) and split over the workers). f must not retain s.
func ForStrings(alpha string, maxLen, workers int, f func(s []byte)) int64 {
	var total int64
	for L := 0; L <= maxLen; L++ {
		count := 1
		for i := 0; i < L; i++ {
			count *= len(alpha)
		}
		total += int64(count)
		parts := workers * 8
		if parts > count {
			parts = count
		}
		ParallelFor(parts, workers, func(w int) {
			buf := make([]byte, L)
			for idx := w; idx < count; idx += parts {
				x := idx
				for k := L - 1; k >= 0; k-- {
					buf[k] = alpha[x%len(alpha)]
					x /= len(alpha)
				}
				f(buf)
			}
		})
	}
	return total
}

// LongSeqs returns a fixed family of longer sequences over 0..vals-1 with
// structure that short exhaustive enumeration cannot contain: periodic,
// blocks, ramps, near-copies, and fixed pseudo-random ones (a linear
// congruential generator with constant seeds - the family is the same on
// every run).
func LongSeqs(vals int, lengths []int) [][]int {
	var out [][]int
	lcg := func(seed uint64) func() int {
		x := seed
		return func() int {
			x = x*6364136223846793005 + 1442695040888963407
			return int((x >> 33) % uint64(vals))
		}
	}
	for _, n := range lengths {
		mk := func(f func(i int) int) {
			s := make([]int, n)
			for i := range s {
				s[i] = f(i) % vals
				if s[i] < 0 {
					s[i] += vals
				}
			}
			out = append(out, s)
		}
		mk(func(i int) int { return 0 })
		mk(func(i int) int { return i })
		mk(func(i int) int { return n - i })
		mk(func(i int) int { return i / 3 })
		mk(func(i int) int { return (i / 7) * 5 })
		mk(func(i int) int { return i * i })
		mk(func(i int) int {
			if i == n/2 {
				return 1
			}
			return 0
		})
		for seed := uint64(1); seed <= 3; seed++ {
			g := lcg(seed*977 + uint64(n))
			mk(func(int) int { return g() })
		}
	}
	return out
}

// HugeKinds are the shapes HugePair can build.
var HugeKinds = []string{"equal", "insert", "delete", "change", "blockswap", "reverse-tail", "periodic", "lcg4"}

// HugePair builds a pair of long sequences from a short description, so that
// a trace for inputs of tens of thousands of elements stays a few bytes. The
// first five kinds use pairwise distinct elements (one optimal alignment);
// the last two use 3 or 4 values (matches everywhere).
func HugePair(kind string, n int) (a, b []int) {
	a = make([]int, n)
	for i := range a {
		a[i] = i
	}
	m := n / 2
	switch kind {
	case "equal":
		b = append([]int(nil), a...)
	case "insert":
		b = append(append(append([]int(nil), a[:m]...), -1), a[m:]...)
	case "delete":
		b = append(append([]int(nil), a[:m]...), a[min(m+1, n):]...)
	case "change":
		b = append([]int(nil), a...)
		if n > 0 {
			b[m] = -1
		}
	case "blockswap":
		b = append(append([]int(nil), a[m:]...), a[:m]...)
	case "reverse-tail":
		b = append([]int(nil), a...)
		for i, j := n-min(n, 5), n-1; i < j; i, j = i+1, j-1 {
			b[i], b[j] = b[j], b[i]
		}
	case "periodic":
		b = make([]int, n+1)
		for i := range a {
			a[i] = i % 3
		}
		for i := range b {
			b[i] = (i*i + i/7) % 3
		}
	case "lcg4":
		x := uint64(n)*2654435761 + 12345
		next := func() int {
			x = x*6364136223846793005 + 1442695040888963407
			return int((x >> 33) % 4)
		}
		b = make([]int, max(n-3, 0))
		for i := range a {
			a[i] = next()
		}
		for i := range b {
			b[i] = next()
		}
	default:
		panic("unknown huge kind " + kind)
	}
	return a, b
}
