// C05: heapq.Queue always yields a minimum element; contents are conserved.
// E1: explicit-state BFS over real queues. The state of a Queue is its heap
// array (observable through Peek) and the direction of the comparison.
package main

import (
	"fmt"
	"sort"
	"strings"
	"sync/atomic"
	"time"

	"verif/mc"

	"github.com/creachadair/mds/heapq"
)

type op struct {
	K  string `json:"k"` // add pop remove set reorder clear
	A  int    `json:"a,omitempty"`
	Vs []int  `json:"vs,omitempty"`
}

func (o op) String() string { return fmt.Sprintf("%s(%d,%v)", o.K, o.A, o.Vs) }

type cfg struct {
	V       int     `json:"values"`  // element values 0..V-1
	N       int     `json:"max_len"` // maximum number of held elements
	SetV    int     `json:"set_values"`
	SetLen  int     `json:"set_max_len"`
	Roots   [][]int `json:"roots"` // nil => New; otherwise NewWithData(copy)
	RootCap []int   `json:"root_spare_cap"`
	// NoMerge > 0: enumerate every history up to this depth without merging
	// states (hidden state that no key shows, e.g. a stale cached function).
	NoMerge int `json:"unmerged_depth,omitempty"`
	// Coarse: elements are (priority, name) pairs encoded as 10*priority+name and
	// compared by priority alone, so that different elements compare equal.
	Coarse bool `json:"coarse_comparison,omitempty"`
}

type counters struct {
	interiorRemove, removeLast, popMulti, reorderNonEmpty, setOverNonEmpty, addDeep int64
}

type inst struct {
	c             *cfg
	q             *heapq.Queue[int]
	desc          bool
	ref           []int // multiset, kept sorted ascending
	cnt           *counters
	emptied, used bool
}

// The two orders are method values of ONE method bound to different receivers:
// different function values that share a code pointer (an implementation that
// compares function identity by code pointer must not take them for the same).
type order struct{ desc bool }

func (o order) compare(a, b int) int {
	if o.desc {
		return b - a
	}
	return a - b
}

var (
	asc = order{false}.compare
	dsc = order{true}.compare
)

func (s *inst) cmp() func(a, b int) int {
	if s.c != nil && s.c.Coarse {
		return order{s.desc}.comparePriority
	}
	if s.desc {
		return dsc
	}
	return asc
}

func (o order) comparePriority(a, b int) int { return o.compare(a/10, b/10) }

// val maps a value index to the element used: the index itself, or with a
// coarse comparison the pair (index/2, index%2).
func (s *inst) val(v int) int {
	if s.c.Coarse {
		return v/2*10 + v%2
	}
	return v
}

func allSeqs(vals, maxLen int) [][]int {
	out := [][]int{{}}
	lo := 0
	for l := 1; l <= maxLen; l++ {
		hi := len(out)
		for _, p := range out[lo:hi] {
			for v := 0; v < vals; v++ {
				out = append(out, append(append([]int{}, p...), v))
			}
		}
		lo = hi
	}
	return out
}

var setArgs [][]int

func (s *inst) Enabled() []op {
	var ops []op
	if len(s.ref) < s.c.N {
		for v := 0; v < s.c.V; v++ {
			ops = append(ops, op{K: "add", A: s.val(v)})
		}
	}
	ops = append(ops, op{K: "pop"})
	for i := 0; i <= len(s.ref); i++ { // i == Len is the documented "no value" case
		ops = append(ops, op{K: "remove", A: i})
	}
	for _, vs := range allSeqs(s.c.SetV, s.c.SetLen) {
		if s.c.Coarse {
			vs = append([]int(nil), vs...)
			for i := range vs {
				vs[i] = s.val(vs[i])
			}
		}
		ops = append(ops, op{K: "set", Vs: vs})
	}
	ops = append(ops, op{K: "reorder"}, op{K: "clear"})
	return ops
}

func (s *inst) data() []int {
	var out []int
	for i := 0; i < s.q.Len()+2; i++ { // bounded: a Peek that never says "no" must not hang the harness
		v, ok := s.q.Peek(i)
		if !ok {
			return out
		}
		out = append(out, v)
	}
	return out
}

func (s *inst) Key() string {
	var sb strings.Builder
	if s.desc {
		sb.WriteByte('d')
	} else {
		sb.WriteByte('a')
	}
	for _, v := range s.data() {
		fmt.Fprintf(&sb, ",%d", v)
	}
	if s.emptied {
		sb.WriteString(" E")
	}
	sb.WriteString(" ")
	sb.WriteString(mc.Fingerprint(s.q)) // fields the harness does not know about
	return sb.String()
}

func (s *inst) refRemove(v int) bool {
	i := sort.SearchInts(s.ref, v)
	if i < len(s.ref) && s.ref[i] == v {
		s.ref = append(s.ref[:i:i], s.ref[i+1:]...)
		return true
	}
	return false
}

func (s *inst) refAdd(v int) {
	i := sort.SearchInts(s.ref, v)
	s.ref = append(s.ref, 0)
	copy(s.ref[i+1:], s.ref[i:])
	s.ref[i] = v
}

// refMin is the minimal element under the current comparison.
func (s *inst) refMin() int {
	if s.desc {
		return s.ref[len(s.ref)-1]
	}
	return s.ref[0]
}

func (s *inst) Apply(o op, check bool) *mc.Failure {
	n0 := len(s.ref)
	switch o.K {
	case "add":
		idx := s.q.Add(o.A)
		s.refAdd(o.A)
		if check {
			if v, ok := s.q.Peek(idx); !ok || v != o.A {
				return mc.Failf(0, "Add(%d) returned index %d but Peek there = (%d,%v)", o.A, idx, v, ok)
			}
			if n0 >= 3 {
				atomic.AddInt64(&s.cnt.addDeep, 1)
			}
		}
	case "pop":
		front := s.q.Front()
		v, ok := s.q.Pop()
		if n0 == 0 {
			if check && (ok || v != 0) {
				return mc.Failf(0, "Pop on empty = (%d,%v)", v, ok)
			}
			break
		}
		if check {
			if !ok {
				return mc.Failf(0, "Pop on %d elements reported empty", n0)
			}
			if v != front {
				return mc.Failf(0, "Pop=%d but Front was %d", v, front)
			}
			if m := s.refMin(); s.cmp()(v, m) != 0 {
				return mc.Failf(0, "Pop=%d is not minimal: held %v (desc=%v), minimum %d", v, s.ref, s.desc, m)
			}
			if n0 > 1 {
				atomic.AddInt64(&s.cnt.popMulti, 1)
			}
		}
		if !s.refRemove(v) && check {
			return mc.Failf(0, "Pop=%d which is not held (held %v)", v, s.ref)
		}
	case "remove":
		pv, pok := s.q.Peek(o.A)
		v, ok := s.q.Remove(o.A)
		if o.A >= n0 {
			if check && (ok || v != 0 || pok) {
				return mc.Failf(0, "Remove(%d) with %d elements = (%d,%v)", o.A, n0, v, ok)
			}
			break
		}
		if check {
			if !ok || !pok || v != pv {
				return mc.Failf(0, "Remove(%d)=(%d,%v) but Peek(%d) showed (%d,%v)", o.A, v, ok, o.A, pv, pok)
			}
			if o.A > 0 && o.A < n0-1 {
				atomic.AddInt64(&s.cnt.interiorRemove, 1)
			} else if o.A == n0-1 && o.A > 0 {
				atomic.AddInt64(&s.cnt.removeLast, 1)
			}
		}
		if !s.refRemove(v) && check {
			return mc.Failf(0, "Remove(%d)=%d which is not held (held %v)", o.A, v, s.ref)
		}
	case "set":
		arg := append([]int(nil), o.Vs...)
		ret := s.q.Set(arg)
		if check {
			if ret != s.q {
				return mc.Failf(0, "Set did not return its receiver")
			}
			if !eqInts(arg, o.Vs) {
				return mc.Failf(0, "Set modified its argument: %v -> %v", o.Vs, arg)
			}
			// Documented: the values are copied, the argument is not aliased.
			before := s.data()
			for i := range arg {
				arg[i] = -99
			}
			if after := s.data(); !eqInts(before, after) {
				return mc.Failf(0, "Set aliases its argument: queue changed %v -> %v when the argument was overwritten", before, after)
			}
			if n0 > 0 {
				atomic.AddInt64(&s.cnt.setOverNonEmpty, 1)
			}
		}
		s.ref = append([]int(nil), o.Vs...)
		sort.Ints(s.ref)
	case "reorder":
		s.desc = !s.desc
		s.q.Reorder(s.cmp())
		if check && n0 > 1 {
			atomic.AddInt64(&s.cnt.reorderNonEmpty, 1)
		}
	case "clear":
		s.q.Clear()
		s.ref = nil
	default:
		return mc.Failf(0, "unknown op %v", o)
	}
	if len(s.ref) > 0 {
		s.used = true
	} else if s.used {
		s.emptied = true
	}
	if !check {
		return nil
	}
	return s.observe()
}

func eqInts(a, b []int) bool {
	if len(a) != len(b) {
		return false
	}
	for i := range a {
		if a[i] != b[i] {
			return false
		}
	}
	return true
}

func (s *inst) observe() *mc.Failure {
	n := len(s.ref)
	if s.q.Len() != n {
		return mc.Failf(0, "Len=%d want %d", s.q.Len(), n)
	}
	if s.q.IsEmpty() != (n == 0) {
		return mc.Failf(0, "IsEmpty=%v with %d held", s.q.IsEmpty(), n)
	}
	d := s.data()
	got := append([]int(nil), d...)
	sort.Ints(got)
	if !eqInts(got, s.ref) {
		return mc.Failf(0, "contents (via Peek) %v are not the multiset %v", d, s.ref)
	}
	var each []int
	s.q.Each(func(v int) bool { each = append(each, v); return len(each) <= len(d)+2 })
	if !eqInts(each, d) {
		return mc.Failf(0, "Each=%v but Peek order=%v", each, d)
	}
	for stop := 1; stop <= n; stop++ {
		c := 0
		s.q.Each(func(int) bool { c++; return c < stop })
		if c != stop {
			return mc.Failf(0, "Each did not stop after %d items (saw %d)", stop, c)
		}
	}
	if v, ok := s.q.Peek(n); ok || v != 0 {
		return mc.Failf(0, "Peek(Len)=(%d,%v)", v, ok)
	}
	f := s.q.Front()
	if n == 0 {
		if f != 0 {
			return mc.Failf(0, "Front of empty queue = %d", f)
		}
		return nil
	}
	if m := s.refMin(); s.cmp()(f, m) != 0 {
		return mc.Failf(0, "Front=%d is not minimal under the current comparison (desc=%v): held %v, heap %v", f, s.desc, s.ref, d)
	}
	// Draining a copy of this very state yields a non-decreasing sequence.
	if cq := cloneQ(s.q); cq != nil {
		var out []int
		for !cq.IsEmpty() {
			v, _ := cq.Pop()
			out = append(out, v)
		}
		for i := 1; i < len(out); i++ {
			if s.cmp()(out[i-1], out[i]) > 0 {
				return mc.Failf(0, "drain %v is not non-decreasing (desc=%v) from heap %v", out, s.desc, d)
			}
		}
		srt := append([]int(nil), out...)
		sort.Ints(srt)
		if !eqInts(srt, s.ref) {
			return mc.Failf(0, "drain %v is not the held multiset %v", out, s.ref)
		}
	}
	return nil
}

func makeBFS(c *cfg, cnt *counters) *mc.BFS[op] {
	return &mc.BFS[op]{
		Name: "heap-bfs", Config: c, NRoots: 2 * len(c.Roots), Merge: c.NoMerge == 0, MaxDepth: c.NoMerge,
		Root: func(i int) (mc.Inst[op], *mc.Failure) {
			s := &inst{c: c, cnt: cnt, desc: i%2 == 1}
			r := c.Roots[i/2]
			if r == nil {
				s.q = heapq.New(s.cmp())
			} else {
				data := make([]int, len(r), len(r)+c.RootCap[i/2])
				copy(data, r)
				s.q = heapq.NewWithData(s.cmp(), data)
				s.ref = append([]int(nil), r...)
				sort.Ints(s.ref)
			}
			if f := s.observe(); f != nil {
				return nil, f
			}
			return s, nil
		},
	}
}

func roots(vals, maxLen int) ([][]int, []int) {
	rs := [][]int{nil}
	caps := []int{0}
	for _, sq := range allSeqs(vals, maxLen) {
		for _, spare := range []int{0, 2} {
			rs = append(rs, sq)
			caps = append(caps, spare)
		}
	}
	return rs, caps
}

// ---- heapq.Sort: all short sequences, both directions (E4) ----

type sortTrace struct {
	In    []int `json:"in"`
	Desc  bool  `json:"desc"`
	Spare int   `json:"spare_capacity"` // the argument is a prefix of a larger array
}

func checkSort(t sortTrace) *mc.Failure {
	full := make([]int, len(t.In)+t.Spare)
	copy(full, t.In)
	for i := len(t.In); i < len(full); i++ {
		full[i] = -1000 - i
	}
	vs := full[:len(t.In)]
	c := asc
	if t.Desc {
		c = dsc
	}
	heapq.Sort(c, vs)
	want := append([]int(nil), t.In...)
	sort.Ints(want)
	if t.Desc {
		for i, j := 0, len(want)-1; i < j; i, j = i+1, j-1 {
			want[i], want[j] = want[j], want[i]
		}
	}
	if !eqInts(vs, want) {
		return mc.Failf(0, "Sort(desc=%v, len %d, spare capacity %d, %.80s) leaves %.100s, want %.100s", t.Desc, len(t.In), t.Spare, fmt.Sprint(t.In), fmt.Sprint(vs), fmt.Sprint(want))
	}
	for i := len(t.In); i < len(full); i++ {
		if full[i] != -1000-i {
			return mc.Failf(0, "Sort(len %d, spare capacity %d) wrote beyond the slice at offset %d", len(t.In), t.Spare, i)
		}
	}
	return nil
}

// longCase is one fixed long history on a heap of up to N elements.
type longCase struct {
	N       int    `json:"n"`
	Pattern string `json:"pattern"` // asc desc perm dups5 equal
	Desc    bool   `json:"desc,omitempty"`
	Data    bool   `json:"with_data,omitempty"` // start from NewWithData of the first third
}

func longValues(n int, pattern string) []int {
	out := make([]int, n)
	x := uint64(n)*2654435761 + 99
	for i := range out {
		x = x*6364136223846793005 + 1442695040888963407
		switch pattern {
		case "asc":
			out[i] = i
		case "desc":
			out[i] = n - i
		case "dups5":
			out[i] = int((x >> 33) % 5)
		case "equal":
			out[i] = 3
		default:
			out[i] = int((x >> 33) % uint64(4*n+1))
		}
	}
	return out
}

// longOps expands a long case into its operations (the positions given to
// Remove depend only on the current length, which the history determines).
func longOps(c longCase) (start []int, ops []op) {
	vals := longValues(c.N, c.Pattern)
	n := 0
	if c.Data {
		start = vals[:c.N/3]
		n = len(start)
	}
	for _, v := range vals[n:] {
		ops = append(ops, op{K: "add", A: v})
	}
	n = c.N
	x := uint64(c.N)*40503 + 7
	for k := 0; k < c.N/2 && n > 0; k++ {
		x = x*6364136223846793005 + 1442695040888963407
		i := int((x >> 33) % uint64(n))
		if k%5 == 0 {
			i = n - 1
		}
		ops = append(ops, op{K: "remove", A: i})
		n--
		if k%2 == 0 {
			ops = append(ops, op{K: "add", A: vals[(k*7)%len(vals)]})
			n++
		}
		if k%11 == 3 {
			ops = append(ops, op{K: "pop"})
			n--
		}
	}
	ops = append(ops, op{K: "reorder"})
	for k := 0; k < n/3; k++ {
		ops = append(ops, op{K: "pop"})
	}
	rev := append([]int(nil), vals...)
	for i, j := 0, len(rev)-1; i < j; i, j = i+1, j-1 {
		rev[i], rev[j] = rev[j], rev[i]
	}
	// a Set that shrinks the queue, then one that grows it again
	short := append([]int(nil), vals[:min(5, len(vals))]...)
	ops = append(ops, op{K: "set", Vs: short}, op{K: "pop"}, op{K: "set", Vs: rev}, op{K: "reorder"})
	n = len(rev)
	for k := 0; n > 0; k++ {
		if k%3 == 2 {
			ops = append(ops, op{K: "remove", A: n / 2})
		} else {
			ops = append(ops, op{K: "pop"})
		}
		n--
	}
	return start, append(ops, op{K: "pop"}, op{K: "remove", A: 0})
}

func checkLong(c longCase) *mc.Failure {
	return mc.GuardTL("heap-long", c, 20*time.Minute, func() *mc.Failure {
		start, ops := longOps(c)
		var local counters
		s := &inst{c: &cfg{}, cnt: &local, desc: c.Desc}
		if c.Data {
			data := make([]int, len(start), len(start)+2)
			copy(data, start)
			s.q = heapq.NewWithData(s.cmp(), data)
			s.ref = append([]int(nil), start...)
			sort.Ints(s.ref)
		} else {
			s.q = heapq.New(s.cmp())
		}
		if f := s.observe(); f != nil {
			return f
		}
		for i, o := range ops {
			if f := s.Apply(o, true); f != nil {
				f.Step = i
				if len(f.Msg) > 400 {
					f.Msg = f.Msg[:400] + "..."
				}
				what := o.String()
				if len(what) > 40 {
					what = what[:40] + "..."
				}
				f.Msg = fmt.Sprintf("long history (%d elements, %s), call %d %s: %s", c.N, c.Pattern, i, what, f.Msg)
				return f
			}
		}
		return nil
	})
}

func main() {
	var cnt counters
	mc.Main("C05",
		mc.Harness{
			Name: "heap-bfs",
			Explore: func(r *mc.Run) {
				c := &cfg{V: mc.Pick(r, 4, 6), N: mc.Pick(r, 6, 7), SetV: 3, SetLen: 3}
				c.Roots, c.RootCap = roots(3, mc.Pick(r, 3, 4))
				res := makeBFS(c, &cnt).Run(r)
				// a deeper heap (four levels) over fewer values and without Set
				deep := &cfg{V: 3, N: mc.Pick(r, 10, 12), SetV: 1, SetLen: 0}
				deep.Roots, deep.RootCap = [][]int{nil}, []int{0}
				res2 := makeBFS(deep, &cnt).Run(r)
				// elements that compare equal without being equal: (priority, name) pairs
				coarse := &cfg{V: 4, N: 5, SetV: 4, SetLen: 2, Coarse: true}
				coarse.Roots, coarse.RootCap = [][]int{nil}, []int{0}
				res4 := makeBFS(coarse, &cnt).Run(r)
				r.Bound("coarse_comparison_configuration", fmt.Sprintf("elements (p,n) for p,n in {0,1} compared by p alone, up to 5 elements: %d states; conservation is judged on the pairs, minimality on the priority", res4.States))
				// every history to a small depth, no merging at all
				flat := &cfg{V: 2, N: 3, SetV: 2, SetLen: 1, NoMerge: mc.Pick(r, 5, 6)}
				flat.Roots, flat.RootCap = [][]int{nil, {1, 0}}, []int{0, 1}
				res3 := makeBFS(flat, &cnt).Run(r)
				r.Bound("unmerged_configuration", fmt.Sprintf("2 values, up to 3 elements, Set of [], [0], [1]: every history up to depth %d without state merging: %d histories", flat.NoMerge, res3.States))
				r.Bound("deeper_configuration", fmt.Sprintf("3 values, up to %d elements, no Set: %d states, %d transitions", deep.N, res2.States, res2.Transitions))
				r.Bound("values", c.V)
				r.Bound("max_len", c.N)
				r.Bound("set_args", "all sequences over {0,1,2} up to length 3")
				r.Bound("roots", fmt.Sprintf("New and NewWithData over %d slices (spare capacity 0 and 2), both directions", len(c.Roots)-1))
				r.Bound("depth_reached", res.Depth)
				r.Count("interior_remove", cnt.interiorRemove)
				r.Count("remove_last", cnt.removeLast)
				r.Count("pop_with_more_than_one", cnt.popMulti)
				r.Count("reorder_nonempty", cnt.reorderNonEmpty)
				r.Count("set_over_nonempty", cnt.setOverNonEmpty)
				r.Count("add_at_depth_ge_2", cnt.addDeep)
				r.AddEval(0, 0, 0, cnt.interiorRemove+cnt.addDeep+cnt.reorderNonEmpty)
				r.Rule("BFS to closure over Add/Pop/Remove(i)/Set/Reorder/Clear from New and NewWithData roots, states merged by (heap array, direction); non-trivial = transitions that remove from the interior, add below level 1, or reorder a non-trivial heap")
				r.Assume("comparison is one of the two total orders on small ints; heapq never inspects elements except through cmp")
				r.Sample(map[string]any{"root": "New(asc)", "ops": "Add 0,0,0,1,1; Pop; Add 0,1; Pop; Add 1; Pop (F1 witness shape)"})
			},
			Replay: func(c mc.Case) *mc.Failure {
				var cf cfg
				if err := mc.Unmarshal(c.Config, &cf); err != nil {
					return mc.Failf(-1, "bad config: %v", err)
				}
				var local counters
				return makeBFS(&cf, &local).Replay(c)
			},
		},
		mc.Harness{
			Name: "heap-long", HangLimit: 20 * time.Minute,
			Explore: func(r *mc.Run) {
				var cases []longCase
				for _, n := range mc.Pick(r, []int{17, 33, 64, 65, 129, 257, 513}, []int{17, 33, 64, 65, 129, 257, 300, 513, 1025, 2049}) {
					for _, p := range []string{"asc", "desc", "perm", "dups5", "equal"} {
						for _, d := range []bool{false, true} {
							cases = append(cases, longCase{n, p, d, false}, longCase{n, p, d, true})
						}
					}
				}
				var calls int64
				mc.ParallelFor(len(cases), r.Workers, func(i int) {
					if f := checkLong(cases[i]); f != nil {
						r.Violation(mc.Case{Harness: "heap-long", Trace: mc.J(cases[i]), Msg: f.Msg, Step: f.Step})
					}
					_, ops := longOps(cases[i])
					atomic.AddInt64(&calls, int64(len(ops)))
				})
				n := int64(len(cases))
				r.AddEval(n, calls, calls, n)
				r.Rule("fixed long histories (fill in five value patterns, thin out by Remove at positions on every level with re-adds and pops, Reorder, Set of the reversed values, drain by Pop and Remove) on heaps of 17...300/1025 elements, both directions, from New and NewWithData; the full observation of the BFS (contents, Front, Each, drain of a copy) after every call")
				r.Sample(longCase{65, "dups5", false, true})
			},
			Replay: func(c mc.Case) *mc.Failure {
				var l longCase
				if err := mc.Unmarshal(c.Trace, &l); err != nil {
					return mc.Failf(-1, "bad trace: %v", err)
				}
				return checkLong(l)
			},
		},
		mc.Harness{
			Name: "heap-sort",
			Explore: func(r *mc.Run) {
				vals, ml := mc.Pick(r, 3, 4), mc.Pick(r, 7, 9)
				seqs := allSeqs(vals, ml)
				var nontriv int64
				var extra int64
				mc.ParallelFor(len(seqs), r.Workers, func(i int) {
					for _, d := range []bool{false, true} {
						for _, spare := range []int{0, 3, 4*len(seqs[i]) + 5} {
							t := sortTrace{In: seqs[i], Desc: d, Spare: spare}
							if f := mc.GuardT("heap-sort", t, func() *mc.Failure { return checkSort(t) }); f != nil {
								r.Violation(mc.Case{Harness: "heap-sort", Trace: mc.J(t), Msg: f.Msg, Step: 0})
							}
						}
					}
					if !sort.IntsAreSorted(seqs[i]) {
						atomic.AddInt64(&nontriv, 1)
					}
				})
				// Longer inputs in several shapes, as prefixes of larger arrays: an
				// implementation may treat storage differently once the heap or its
				// capacity passes a threshold.
				shapes := map[string]func(i, n int) int{
					"ascending":   func(i, n int) int { return i },
					"descending":  func(i, n int) int { return n - i },
					"constant":    func(i, n int) int { return 7 },
					"alternating": func(i, n int) int { return (i%2)*50 + i/2 },
					"sawtooth":    func(i, n int) int { return i % 5 },
					"organ-pipe":  func(i, n int) int { return min(i, n-i) },
					"last-small": func(i, n int) int {
						if i == n-1 {
							return -1
						}
						return i
					},
				}
				for _, n := range []int{10, 15, 16, 17, 18, 31, 32, 33, 48, 63, 64, 65, 70, 100, 129, 260} {
					for name, sh := range shapes {
						in := make([]int, n)
						for i := range in {
							in[i] = sh(i, n)
						}
						for _, spare := range []int{0, 1, 64 - min(n, 64), 64, 3 * n, 4*n + 1, 300} {
							for _, d := range []bool{false, true} {
								t := sortTrace{In: in, Desc: d, Spare: spare}
								if f := mc.GuardT("heap-sort", t, func() *mc.Failure { return checkSort(t) }); f != nil {
									f.Msg = name + ": " + f.Msg
									r.Violation(mc.Case{Harness: "heap-sort", Trace: mc.J(t), Msg: f.Msg, Step: 0})
								}
								extra++
							}
						}
					}
				}
				r.Count("longer_inputs_with_spare_capacity", extra)
				n := int64(len(seqs))*6 + extra
				r.AddEval(int64(len(seqs)), n, n, nontriv)
				r.Bound("values", vals)
				r.Bound("max_len", ml)
				r.Rule("heapq.Sort on every sequence over the value alphabet up to the length bound, both directions, as a slice with spare capacity 0, 3 and 4*len+5 (nothing beyond len may be written); plus 16 lengths 10..260 x 7 shapes x 7 spare capacities; non-trivial = input not already sorted")
				r.Sample(sortTrace{In: []int{2, 0, 1, 0}, Desc: true})
			},
			Replay: func(c mc.Case) *mc.Failure {
				var t sortTrace
				if err := mc.Unmarshal(c.Trace, &t); err != nil {
					return mc.Failf(-1, "bad trace: %v", err)
				}
				return checkSort(t)
			},
		},
	)
}
