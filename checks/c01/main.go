// C01: stree.Tree is a sorted set: results and contents match a reference.
// E1 (per-beta BFS over real trees) + E2 (long adversarial histories with
// bounded deviations) + bulk construction enumeration. See lib/streeh.
package main

import (
	"verif/lib/streeh"
	"verif/mc"
)

func main() {
	mode := streeh.Mode{Set: true}
	mc.Main("C01", streeh.BFSHarness(mode), streeh.NewHarness(mode), streeh.LongHarness(mode))
}
