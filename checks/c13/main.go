// C13: mdiff chunks always describe a correct patch from Left to Right.
// E4: every pair of line sequences over small alphabets x every context size.
package main

import (
	"fmt"
	"sync/atomic"
	"time"

	"verif/lib/mdiffh"
	"verif/mc"

	"github.com/creachadair/mds/mdiff"
	"github.com/creachadair/mds/slice"
)

type tcase struct {
	L     []int    `json:"left"`
	R     []int    `json:"right"`
	N     int      `json:"n"`
	Alpha []string `json:"alphabet,omitempty"` // default: a b c d
}

// hugeLimit: the edit script of two files of tens of thousands of lines
// takes seconds to minutes, not microseconds.
const hugeLimit = 15 * time.Minute

// acase: Left and Right are views of one backing array of lines.
type acase struct {
	S              []int `json:"backing"`
	A0, A1, B0, B1 int
	N              int `json:"n"`
}

// aliasing is set while checkL runs on behalf of checkAliased: the slices it
// builds from t.L and t.R are replaced by views of one array.
func checkAliased(a acase) *mc.Failure {
	lines := mdiffh.Lines(a.S, alphabet)
	return checkViews(tcase{L: a.S[a.A0:a.A1], R: a.S[a.B0:a.B1], N: a.N}, lines[a.A0:a.A1], lines[a.B0:a.B1])
}

// lcase describes a long pair (mdiffh.LongPair) and a context size.
type lcase struct {
	N    int  `json:"lines"`
	Gap  int  `json:"gap"`
	Ctx  int  `json:"n"`
	Swap bool `json:"swap,omitempty"`
}

// periodicPair: Left = c^run b g1..g_gap x, Right = c^(run-1) b g1..g_gap y - one line of
// a run of equal lines is dropped, then gap unchanged lines, then another change.
func periodicPair(run, gap int) (alpha []string, L, R []int) {
	alpha = []string{"c", "b", "x", "y", "g1", "g2", "g3"}
	for i := 0; i < run; i++ {
		L = append(L, 0)
		if i > 0 {
			R = append(R, 0)
		}
	}
	L, R = append(L, 1), append(R, 1)
	for g := 0; g < gap; g++ {
		L, R = append(L, 4+g), append(R, 4+g)
	}
	return alpha, append(L, 2), append(R, 3)
}

func checkLongCase(l lcase) *mc.Failure {
	if l.N < 0 {
		al, L, R := periodicPair(-l.N, l.Gap)
		if l.Swap {
			L, R = R, L
		}
		f := check(tcase{L, R, l.Ctx, al})
		if f != nil {
			f.Msg = fmt.Sprintf("a run of %d equal lines with one dropped, %d unchanged lines, another change (swap=%v): %s", -l.N, l.Gap, l.Swap, f.Msg)
		}
		return f
	}
	al, L, R := mdiffh.LongPair(l.N, l.Gap)
	if l.Swap {
		L, R = R, L
	}
	var limit time.Duration
	if l.N > 5000 {
		limit = hugeLimit
	}
	f := checkL(tcase{L, R, l.Ctx, al}, limit)
	if f != nil {
		if len(f.Msg) > 600 {
			f.Msg = f.Msg[:600] + "..."
		}
		f.Msg = fmt.Sprintf("long pair (%d lines, %d unchanged lines between edits, swap=%v): %s", l.N, l.Gap, l.Swap, f.Msg)
	}
	return f
}

var alphabet = []string{"a", "b", "c", "d"}

type snap struct {
	ls, le, rs, re int
	edits          []mdiff.Edit
}

func snapshot(cs []*mdiff.Chunk) []snap {
	var out []snap
	for _, c := range cs {
		es := make([]mdiff.Edit, len(c.Edits))
		for i, e := range c.Edits {
			es[i] = mdiff.Edit{Op: e.Op, X: append([]string(nil), e.X...), Y: append([]string(nil), e.Y...)}
		}
		out = append(out, snap{c.LStart, c.LEnd, c.RStart, c.REnd, es})
	}
	return out
}

func sameEdits(a, b []mdiff.Edit) bool {
	if len(a) != len(b) {
		return false
	}
	for i := range a {
		if a[i].Op != b[i].Op || fmt.Sprint(a[i].X) != fmt.Sprint(b[i].X) || fmt.Sprint(a[i].Y) != fmt.Sprint(b[i].Y) {
			return false
		}
	}
	return true
}

func ordered(cs []*mdiff.Chunk, strict bool, stage string) *mc.Failure {
	for i := 1; i < len(cs); i++ {
		p, c := cs[i-1], cs[i]
		if c.LStart < p.LEnd || c.RStart < p.REnd {
			return mc.Failf(0, "%s: chunks %d and %d are not ascending and disjoint: %s", stage, i-1, i, mdiffh.Describe(cs))
		}
		if strict && (c.LStart == p.LEnd || c.RStart == p.REnd) {
			// adjacent on one side means adjacent on both for a correct diff
			if c.LStart == p.LEnd && c.RStart == p.REnd {
				return mc.Failf(0, "%s: chunks %d and %d are adjacent after Unify: %s", stage, i-1, i, mdiffh.Describe(cs))
			}
		}
	}
	return nil
}

func check(t tcase) *mc.Failure { return checkL(t, 0) }

// checkL is check with its own hang limit (0: the default), for the cases
// whose quadratic edit script takes seconds.
func checkL(t tcase, limit time.Duration) *mc.Failure {
	al := alphabet
	if t.Alpha != nil {
		al = t.Alpha
	}
	return checkViewsL(t, mdiffh.Lines(t.L, al), mdiffh.Lines(t.R, al), limit)
}

func checkViews(t tcase, left, right []string) *mc.Failure { return checkViewsL(t, left, right, 0) }

// checkViewsL runs the oracle on the given line slices (which may share storage).
func checkViewsL(t tcase, left, right []string, limit time.Duration) *mc.Failure {
	return mc.GuardTL("chunks", t, limit, func() *mc.Failure {
		l0, r0 := append([]string(nil), left...), append([]string(nil), right...)
		d := mdiff.New(left, right)
		edits0 := snapshot([]*mdiff.Chunk{{Edits: d.Edits}})[0].edits
		intact := func(stage string) *mc.Failure {
			if fmt.Sprintf("%q", left) != fmt.Sprintf("%q", l0) || fmt.Sprintf("%q", right) != fmt.Sprintf("%q", r0) {
				return mc.Failf(0, "%s modified the input lines", stage)
			}
			if !sameEdits(d.Edits, edits0) {
				return mc.Failf(0, "%s disturbed Diff.Edits: %v, was %v", stage, d.Edits, edits0)
			}
			return nil
		}
		// --- after New
		for i, c := range d.Chunks {
			if _, f := mdiffh.ReplayChunk(c, left, right); f != nil {
				return mc.Failf(0, "after New, chunk %d: %s", i, f.Msg)
			}
			for _, e := range c.Edits {
				if e.Op == slice.OpEmit {
					return mc.Failf(0, "after New, chunk %d contains context although none was requested", i)
				}
			}
		}
		if f := ordered(d.Chunks, false, "after New"); f != nil {
			return f
		}
		if f := mdiffh.Splice(d.Chunks, left, right); f != nil {
			return mc.Failf(0, "after New: %s", f.Msg)
		}
		if equal := fmt.Sprintf("%q", left) == fmt.Sprintf("%q", right); (len(d.Chunks) == 0) != equal {
			return mc.Failf(0, "New: %d chunks for equal=%v inputs", len(d.Chunks), equal)
		}
		base := snapshot(d.Chunks)
		// --- after AddContext(n)
		if ret := d.AddContext(t.N); ret != d {
			return mc.Failf(0, "AddContext did not return its receiver")
		}
		if f := intact("AddContext"); f != nil {
			return f
		}
		if len(d.Chunks) != len(base) {
			return mc.Failf(0, "AddContext changed the number of chunks")
		}
		for i, c := range d.Chunks {
			if _, f := mdiffh.ReplayChunk(c, left, right); f != nil {
				return mc.Failf(0, "after AddContext(%d), chunk %d: %s", t.N, i, f.Msg)
			}
			b := base[i]
			pre, post := b.ls-c.LStart, c.LEnd-b.le
			if pre < 0 || post < 0 || pre > t.N || post > t.N || b.rs-c.RStart != pre || c.REnd-b.re != post {
				return mc.Failf(0, "after AddContext(%d), chunk %d grew by %d/%d lines before/after (left) and %d/%d (right)", t.N, i, pre, post, b.rs-c.RStart, c.REnd-b.re)
			}
			es := c.Edits
			if pre > 0 {
				if len(es) == 0 || es[0].Op != slice.OpEmit || len(es[0].X) != pre {
					return mc.Failf(0, "after AddContext(%d), chunk %d: leading context is not one emit of %d lines", t.N, i, pre)
				}
				es = es[1:]
			}
			if post > 0 {
				if len(es) == 0 || es[len(es)-1].Op != slice.OpEmit || len(es[len(es)-1].X) != post {
					return mc.Failf(0, "after AddContext(%d), chunk %d: trailing context is not one emit of %d lines", t.N, i, post)
				}
				es = es[:len(es)-1]
			}
			if !sameEdits(es, b.edits) {
				return mc.Failf(0, "after AddContext(%d), chunk %d: the original edits changed: %v, were %v", t.N, i, es, b.edits)
			}
		}
		// --- after Unify
		if ret := d.Unify(); ret != d {
			return mc.Failf(0, "Unify did not return its receiver")
		}
		if f := intact("Unify"); f != nil {
			return f
		}
		for i, c := range d.Chunks {
			if _, f := mdiffh.ReplayChunk(c, left, right); f != nil {
				return mc.Failf(0, "after AddContext(%d).Unify(), chunk %d: %s; all chunks %s", t.N, i, f.Msg, mdiffh.Describe(d.Chunks))
			}
			es := c.Edits
			for k, e := range es {
				if e.Op != slice.OpEmit {
					continue
				}
				lim := 2 * t.N
				if k == 0 || k == len(es)-1 {
					lim = t.N
				}
				if len(e.X) > lim {
					return mc.Failf(0, "after AddContext(%d).Unify(), chunk %d has %d context lines in edit %d", t.N, i, len(e.X), k)
				}
			}
		}
		if f := ordered(d.Chunks, true, fmt.Sprintf("after AddContext(%d).Unify()", t.N)); f != nil {
			return f
		}
		if f := mdiffh.Splice(d.Chunks, left, right); f != nil {
			return mc.Failf(0, "after AddContext(%d).Unify(): %s; chunks %s", t.N, f.Msg, mdiffh.Describe(d.Chunks))
		}
		if len(base) > 0 && len(d.Chunks) == 0 {
			return mc.Failf(0, "Unify lost all chunks")
		}
		// --- AddContext called again on the chunks of an earlier AddContext
		// (which may already overlap): "after AddContext(n)" holds after
		// every call, not only after the first one on a fresh Diff.
		if len(left)+len(right) <= 64 && len(base) > 0 {
			for _, m := range []int{1, t.N} {
				if m == 0 || (m == 1 && t.N == 1) {
					continue
				}
				d2 := mdiff.New(left, right).AddContext(t.N).AddContext(m)
				stage := fmt.Sprintf("after AddContext(%d).AddContext(%d)", t.N, m)
				if len(d2.Chunks) != len(base) {
					return mc.Failf(0, "%s: %d chunks, were %d", stage, len(d2.Chunks), len(base))
				}
				for i, c := range d2.Chunks {
					if _, f := mdiffh.ReplayChunk(c, left, right); f != nil {
						return mc.Failf(0, "%s, chunk %d: %s", stage, i, f.Msg)
					}
					b := base[i]
					pre, post := b.ls-c.LStart, c.LEnd-b.le
					if pre < 0 || post < 0 || pre > t.N+m || post > t.N+m || b.rs-c.RStart != pre || c.REnd-b.re != post {
						return mc.Failf(0, "%s, chunk %d grew by %d/%d lines before/after (left) and %d/%d (right)", stage, i, pre, post, b.rs-c.RStart, c.REnd-b.re)
					}
				}
				if !sameEdits(d2.Edits, edits0) {
					return mc.Failf(0, "%s disturbed Diff.Edits", stage)
				}
				d2.Unify()
				for i, c := range d2.Chunks {
					if _, f := mdiffh.ReplayChunk(c, left, right); f != nil {
						return mc.Failf(0, "%s.Unify(), chunk %d: %s; all chunks %s", stage, i, f.Msg, mdiffh.Describe(d2.Chunks))
					}
				}
				if f := ordered(d2.Chunks, true, stage+".Unify()"); f != nil {
					return f
				}
				if f := mdiffh.Splice(d2.Chunks, left, right); f != nil {
					return mc.Failf(0, "%s.Unify(): %s; chunks %s", stage, f.Msg, mdiffh.Describe(d2.Chunks))
				}
			}
		}
		return nil
	})
}

func main() {
	mc.Main("C13", mc.Harness{
		Name: "chunks",
		Explore: func(r *mc.Run) {
			type dom struct{ vals, maxLen int }
			doms := mc.Pick(r, []dom{{2, 5}, {3, 4}}, []dom{{2, 7}, {3, 5}, {4, 4}})
			var evals, multi int64
			for _, d := range doms {
				seqs := mc.AllSeqs(d.vals, d.maxLen)
				mc.ParallelFor(len(seqs), r.Workers, func(i int) {
					for _, b := range seqs {
						nmax := max(len(seqs[i]), len(b)) + 1
						for n := 0; n <= nmax; n++ {
							t := tcase{seqs[i], b, n, nil}
							if f := check(t); f != nil {
								r.Violation(mc.Case{Harness: "chunks", Trace: mc.J(t), Msg: f.Msg})
							}
							atomic.AddInt64(&evals, 1)
						}
						if len(mdiff.New(mdiffh.Lines(seqs[i], alphabet), mdiffh.Lines(b, alphabet)).Chunks) >= 2 {
							atomic.AddInt64(&multi, int64(nmax+1))
						}
					}
				})
				r.Bound(fmt.Sprintf("alphabet_%d", d.vals), fmt.Sprintf("all pairs of line sequences up to length %d, every n from 0 to max(len)+1", d.maxLen))
			}
			r.AddEval(evals, evals, evals, multi)
			r.Rule("New, AddContext(n), Unify on every pair and every context size; chunk replay, context bounds, ordering/disjointness, splice = Right, Edits and inputs undisturbed; on a second Diff AddContext(n).AddContext(m) for m in {1,n} (the second call works on chunks that may already overlap), then Unify, same oracles; non-trivial = cases with at least two chunks (context can interact)")
			r.Sample(tcase{[]int{0, 1}, []int{0, 0, 1, 0}, 2, nil})
		},
		Replay: func(c mc.Case) *mc.Failure {
			var t tcase
			if err := mc.Unmarshal(c.Trace, &t); err != nil {
				return mc.Failf(-1, "bad trace: %v", err)
			}
			return check(t)
		},
	}, mc.Harness{
		Name: "chunks-aliased",
		Explore: func(r *mc.Run) {
			seqs := mc.AllSeqs(2, mc.Pick(r, 5, 6))
			var evals int64
			mc.ParallelFor(len(seqs), r.Workers, func(i int) {
				s := seqs[i]
				n := len(s)
				var k int64
				for a0 := 0; a0 <= n; a0++ {
					for a1 := a0; a1 <= n; a1++ {
						for b0 := 0; b0 <= n; b0++ {
							for b1 := b0; b1 <= n; b1++ {
								for _, ctx := range []int{0, 1, 2} {
									a := acase{s, a0, a1, b0, b1, ctx}
									if f := checkAliased(a); f != nil {
										r.Violation(mc.Case{Harness: "chunks-aliased", Trace: mc.J(a), Msg: "Left and Right are views of one array of lines: " + f.Msg})
									}
									k++
								}
							}
						}
					}
				}
				atomic.AddInt64(&evals, k)
			})
			r.AddEval(int64(len(seqs)), evals, evals, evals)
			r.Rule("New/AddContext/Unify with Left and Right every pair of subslices of one backing array of lines (same start, prefixes of each other, overlapping), context 0..2")
			r.Sample(acase{[]int{0, 1, 1}, 0, 1, 0, 3, 1})
		},
		Replay: func(c mc.Case) *mc.Failure {
			var a acase
			if err := mc.Unmarshal(c.Trace, &a); err != nil {
				return mc.Failf(-1, "bad trace: %v", err)
			}
			return checkAliased(a)
		},
	}, mc.Harness{
		Name: "chunks-long", HangLimit: hugeLimit,
		Explore: func(r *mc.Run) {
			var cases []lcase
			for _, n := range mc.Pick(r, []int{12, 40, 130, 300}, []int{12, 40, 130, 300, 1100, 2500}) {
				for gap := 0; gap <= 11; gap++ {
					for _, ctx := range []int{0, 1, 2, 3, 4, 5, 6, 8, 13, n} {
						cases = append(cases, lcase{n, gap, ctx, false}, lcase{n, gap, ctx, true})
					}
				}
			}
			// runs of equal lines: a backward context scan can then match lines inside the
			// previous chunk, several of them when the run is long (periodic inputs)
			for run := 2; run <= 9; run++ {
				for gap := 0; gap <= 3; gap++ {
					for ctx := 0; ctx <= run+gap+3; ctx++ {
						cases = append(cases, lcase{N: -run, Gap: gap, Ctx: ctx}, lcase{N: -run, Gap: gap, Ctx: ctx, Swap: true})
					}
				}
			}
			// line numbers and path lengths beyond 2^15 (and 2^16 in the thorough tier)
			cases = append(cases, lcase{33000, 8000, 3, false}, lcase{33001, 9000, 1, false}, lcase{33001, 9000, 0, true})
			if !r.Quick() {
				cases = append(cases, lcase{65600, 20000, 3, false}, lcase{65601, 16000, 1, true})
			}
			var multi int64
			mc.ParallelFor(len(cases), r.Workers, func(i int) {
				if f := checkLongCase(cases[i]); f != nil {
					r.Violation(mc.Case{Harness: "chunks-long", Trace: mc.J(cases[i]), Msg: f.Msg})
				}
				if cases[i].Gap > 2*cases[i].Ctx {
					atomic.AddInt64(&multi, 1)
				}
			})
			n := int64(len(cases))
			r.AddEval(n, n, n, multi)
			r.Rule("files of 12...300/2500 lines with an edit every gap+1 lines (gap 0...11: deletions, insertions, replacements of one or two lines, repeated lines, an insertion at the end), context 0...13 and the whole file, both directions; three files of 33000 lines (thorough: 65600) with a handful of edits, some beyond line 32768; the same oracle as the short pairs; non-trivial = cases where the context leaves the chunks apart")
			r.Sample(lcase{130, 5, 3, false})
		},
		Replay: func(c mc.Case) *mc.Failure {
			var l lcase
			if err := mc.Unmarshal(c.Trace, &l); err != nil {
				return mc.Failf(-1, "bad trace: %v", err)
			}
			return checkLongCase(l)
		},
	})
}
