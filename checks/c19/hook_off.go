//go:build !verif

package main

import (
	"math/rand/v2"

	"github.com/creachadair/mds/distinct"
)

func newCounter(size int, src rand.Source) *distinct.Counter[int] { return nil }
func getState(c *distinct.Counter[int]) ([]int, uint64)           { return nil, 0 }
func setState(c *distinct.Counter[int], buf []int, p uint64)      {}

func setOrder(name string) {}
