// C08: cache LRU - least-recently-used eviction, exact accounting, never over
// limit. E1: explicit-state BFS over the real cache.Cache with the real LRU
// store, against a list-based reference LRU with an eviction log.
package main

import (
	"fmt"
	"sort"
	"strings"
	"sync/atomic"
	"time"

	"verif/mc"

	"github.com/creachadair/mds/cache"
)

type op struct {
	K string `json:"k"` // put get has remove clear
	A int    `json:"a,omitempty"`
	V int    `json:"v,omitempty"`
}

func (o op) String() string { return fmt.Sprintf("%s(%d,%d)", o.K, o.A, o.V) }

type cfg struct {
	Name   string `json:"name"`
	Limit  int    `json:"limit"`
	Keys   int    `json:"keys"`
	Values []int  `json:"values"`
	BySize bool   `json:"size_is_value"` // size(v) = v, else 1
	Sym    bool   `json:"key_symmetry"`
	NoSize bool   `json:"default_size_func"` // do not install a size function at all
}

type ev struct{ K, V int }

// refLRU is the reference: a recency list (front = least recently used).
type refLRU struct {
	order []int // keys, least recently used first
	val   map[int]int
	size  int64
}

func (c *cfg) sizeOf(v int) int64 {
	if c.BySize {
		return int64(v)
	}
	return 1
}

func (r *refLRU) touch(k int) {
	for i, x := range r.order {
		if x == k {
			r.order = append(r.order[:i:i], r.order[i+1:]...)
			break
		}
	}
	r.order = append(r.order, k)
}

func (r *refLRU) del(k int) {
	for i, x := range r.order {
		if x == k {
			r.order = append(r.order[:i:i], r.order[i+1:]...)
			break
		}
	}
	delete(r.val, k)
}

type counters struct {
	evictions, multiEvict, refused, replaced, zeroSize, indexMismatch, getAfterRemove int64
}

type inst struct {
	c    *cfg
	ch   *cache.Cache[int, int]
	ref  *refLRU
	log  []ev
	cnt  *counters
	note string
	// emptied: the cache has been non-empty and became empty again at least
	// once. It is part of the state key: an implementation may carry hidden
	// state across such a reset (a replaced index map, a stale cursor) that
	// the hook does not show, and a finer key only costs time.
	emptied bool
	used    bool
}

func newInst(c *cfg, cnt *counters) *inst {
	s := &inst{c: c, cnt: cnt, ref: &refLRU{val: map[int]int{}}}
	conf := cache.LRU[int, int]().OnEvict(func(k, v int) { s.log = append(s.log, ev{k, v}) })
	if c.BySize {
		conf = conf.WithSize(func(v int) int64 { return int64(v) })
	} else if !c.NoSize {
		conf = conf.WithSize(func(int) int64 { return 1 })
	}
	s.ch = cache.New(int64(c.Limit), conf)
	return s
}

func (s *inst) Enabled() []op {
	var ops []op
	for k := 0; k < s.c.Keys; k++ {
		for _, v := range s.c.Values {
			ops = append(ops, op{K: "put", A: k, V: v})
		}
		ops = append(ops, op{K: "get", A: k}, op{K: "has", A: k}, op{K: "remove", A: k})
	}
	return append(ops, op{K: "clear"})
}

// Key is the product of the implementation state (heap array with clocks
// abstracted to ranks, size, count) and the reference state (recency order
// and values). In a correct implementation the second is a function of the
// first; including it keeps the search from merging a state in which the two
// have silently diverged into one where they have not. With key symmetry,
// keys are renamed by their implementation clock rank.
func (s *inst) Key() string {
	heap, size, count, ok := lruState(s.ch)
	if !ok {
		return ""
	}
	clocks := make([]int64, len(heap))
	for i, e := range heap {
		clocks[i] = e.Clock
	}
	sort.Slice(clocks, func(i, j int) bool { return clocks[i] < clocks[j] })
	rank := map[int64]int{}
	for i, c := range clocks {
		rank[c] = i
	}
	name := map[int]int{} // key -> printed name
	var sb strings.Builder
	fmt.Fprintf(&sb, "s%d c%d:", size, count)
	for _, e := range heap {
		if !e.IndexOK {
			atomic.AddInt64(&s.cnt.indexMismatch, 1)
		}
		if s.c.Sym {
			name[e.Key] = rank[e.Clock]
			fmt.Fprintf(&sb, " %d=%d", rank[e.Clock], e.Value)
		} else {
			fmt.Fprintf(&sb, " %d:%d=%d", e.Key, rank[e.Clock], e.Value)
		}
	}
	if s.emptied {
		sb.WriteString(" E")
	}
	sb.WriteString(" | ref")
	for _, k := range s.ref.order {
		n, named := k, true
		if s.c.Sym {
			n, named = name[k]
		}
		if named {
			fmt.Fprintf(&sb, " %d=%d", n, s.ref.val[k])
		} else {
			fmt.Fprintf(&sb, " x=%d", s.ref.val[k])
		}
	}
	return sb.String()
}

func (s *inst) Apply(o op, check bool) *mc.Failure {
	s.log = s.log[:0]
	r := s.ref
	var wantEvicts []ev // in order
	var wantReplaced *ev
	orderFree := false
	switch o.K {
	case "put":
		got := s.ch.Put(o.A, o.V)
		sz := s.c.sizeOf(o.V)
		want := sz <= int64(s.c.Limit)
		if want {
			if old, ok := r.val[o.A]; ok {
				wantReplaced = &ev{o.A, old}
				r.size -= s.c.sizeOf(old)
				r.del(o.A)
			}
			for r.size+sz > int64(s.c.Limit) {
				k := r.order[0]
				wantEvicts = append(wantEvicts, ev{k, r.val[k]})
				r.size -= s.c.sizeOf(r.val[k])
				r.del(k)
			}
			r.val[o.A] = o.V
			r.order = append(r.order, o.A)
			r.size += sz
		}
		if check {
			if got != want {
				return mc.Failf(0, "Put(%d,%d)=%v want %v (size %d, limit %d)", o.A, o.V, got, want, sz, s.c.Limit)
			}
			if !want {
				atomic.AddInt64(&s.cnt.refused, 1)
			}
			if wantReplaced != nil {
				atomic.AddInt64(&s.cnt.replaced, 1)
			}
			if len(wantEvicts) > 1 {
				atomic.AddInt64(&s.cnt.multiEvict, 1)
			}
			atomic.AddInt64(&s.cnt.evictions, int64(len(wantEvicts)))
			if sz == 0 {
				atomic.AddInt64(&s.cnt.zeroSize, 1)
			}
		}
	case "get":
		v, ok := s.ch.Get(o.A)
		wv, wok := r.val[o.A]
		if wok {
			r.touch(o.A)
		}
		if check && (ok != wok || v != wv) {
			return mc.Failf(0, "Get(%d)=(%d,%v) want (%d,%v)", o.A, v, ok, wv, wok)
		}
	case "has":
		ok := s.ch.Has(o.A)
		_, wok := r.val[o.A]
		if check && ok != wok {
			return mc.Failf(0, "Has(%d)=%v want %v", o.A, ok, wok)
		}
	case "remove":
		ok := s.ch.Remove(o.A)
		wv, wok := r.val[o.A]
		if wok {
			wantEvicts = append(wantEvicts, ev{o.A, wv})
			r.size -= s.c.sizeOf(wv)
			r.del(o.A)
		}
		if check && ok != wok {
			return mc.Failf(0, "Remove(%d)=%v want %v", o.A, ok, wok)
		}
	case "clear":
		s.ch.Clear()
		for _, k := range r.order {
			wantEvicts = append(wantEvicts, ev{k, r.val[k]})
		}
		orderFree = true // the property fixes no callback order for Clear
		r.order, r.val, r.size = nil, map[int]int{}, 0
	default:
		return mc.Failf(0, "unknown op %v", o)
	}
	if len(r.val) > 0 {
		s.used = true
	} else if s.used {
		s.emptied = true
	}
	if !check {
		return nil
	}
	// Callback sequence of this operation. Evictions must come in LRU order;
	// the report for a replaced entry may come anywhere among them.
	got := append([]ev(nil), s.log...)
	if wantReplaced != nil {
		found := false
		for i, e := range got {
			if e == *wantReplaced {
				got = append(got[:i:i], got[i+1:]...)
				found = true
				break
			}
		}
		if !found {
			return mc.Failf(0, "%v: no eviction callback for the replaced entry %v (callbacks %v)", o, *wantReplaced, s.log)
		}
	}
	if orderFree {
		a, b := append([]ev(nil), got...), append([]ev(nil), wantEvicts...)
		less := func(x []ev) func(i, j int) bool {
			return func(i, j int) bool { return x[i].K < x[j].K || x[i].K == x[j].K && x[i].V < x[j].V }
		}
		sort.Slice(a, less(a))
		sort.Slice(b, less(b))
		got, wantEvicts = a, b
	}
	if !eqEv(got, wantEvicts) {
		return mc.Failf(0, "%v: eviction callbacks %v, want %v (replaced: %v); reference recency order before the call ended as %v", o, s.log, wantEvicts, wantReplaced, r.order)
	}
	return s.observe()
}

func eqEv(a, b []ev) bool {
	if len(a) != len(b) {
		return false
	}
	for i := range a {
		if a[i] != b[i] {
			return false
		}
	}
	return true
}

func (s *inst) observe() *mc.Failure {
	r := s.ref
	if n := s.ch.Len(); n != len(r.val) {
		return mc.Failf(0, "Len=%d want %d", n, len(r.val))
	}
	sz := s.ch.Size()
	if sz != r.size {
		return mc.Failf(0, "Size=%d want %d (sum of present value sizes)", sz, r.size)
	}
	if sz > int64(s.c.Limit) {
		return mc.Failf(0, "Size=%d exceeds limit %d", sz, s.c.Limit)
	}
	for k := 0; k < s.c.Keys; k++ {
		_, wok := r.val[k]
		if s.ch.Has(k) != wok {
			return mc.Failf(0, "Has(%d)=%v want %v", k, !wok, wok)
		}
	}
	if len(s.log) > 0 && false {
		return nil
	}
	return nil
}

func makeBFS(c *cfg, cnt *counters, hooks bool, depth int) *mc.BFS[op] {
	return &mc.BFS[op]{
		Name: "lru-bfs", Config: c, NRoots: 1, Merge: hooks, MaxDepth: depth, HashKeys: c.Limit >= 7 && !c.Sym,
		Root: func(int) (mc.Inst[op], *mc.Failure) {
			s := newInst(c, cnt)
			if f := s.observe(); f != nil {
				return nil, f
			}
			return s, nil
		},
	}
}

// llong is one fixed long history: the clock abstraction of the BFS (only
// the order of access stamps matters) says nothing about stamps that wrap,
// and the heap under the store is never more than three levels deep there.
type llong struct {
	Limit  int   `json:"limit"`
	Keys   int   `json:"keys"`
	Steps  int64 `json:"steps"`
	BySize bool  `json:"size_is_value,omitempty"`
	Hot    bool  `json:"hot_key,omitempty"` // most accesses go to one key (the rest age)
}

func llongOp(l llong, x *uint64, i int64) op {
	*x = *x*6364136223846793005 + 1442695040888963407
	r := int((*x >> 33) % 1000)
	*x = *x*6364136223846793005 + 1442695040888963407
	k := int((*x >> 33) % uint64(l.Keys))
	if l.Hot && r < 900 {
		return op{K: "get", A: 0}
	}
	v := 1
	if l.BySize {
		v = 1 + k%3
	}
	switch {
	case r < 450:
		return op{K: "get", A: k}
	case r < 800:
		return op{K: "put", A: k, V: v}
	case r < 880:
		return op{K: "has", A: k}
	case r < 998 || i%50000 != 7:
		return op{K: "remove", A: k}
	default:
		return op{K: "clear"}
	}
}

func checkLLong(l llong) *mc.Failure {
	return mc.GuardTL("lru-long", l, 30*time.Minute, func() *mc.Failure {
		var local counters
		vals := []int{1}
		if l.BySize {
			vals = []int{1, 2, 3}
		}
		s := newInst(&cfg{Limit: l.Limit, Keys: l.Keys, Values: vals, BySize: l.BySize}, &local)
		x := uint64(l.Limit)*1000003 + uint64(l.Keys)
		for i := int64(0); i < l.Steps; i++ {
			o := llongOp(l, &x, i)
			if f := s.Apply(o, true); f != nil {
				f.Step = int(min(i, 1<<30))
				if len(f.Msg) > 500 {
					f.Msg = f.Msg[:500] + "..."
				}
				f.Msg = fmt.Sprintf("long history (limit %d, %d keys, hot=%v), call %d %v: %s", l.Limit, l.Keys, l.Hot, i, o, f.Msg)
				return f
			}
		}
		return nil
	})
}

func main() {
	var cnt counters
	mc.Main("C08", mc.Harness{
		Name: "lru-bfs",
		Explore: func(r *mc.Run) {
			hooks := r.Hooks
			if hooks {
				// The state hook understands the package's own LRU store only.
				probe := newInst(&cfg{Limit: 1, Keys: 1, Values: []int{0}}, &cnt)
				if _, _, _, ok := lruState(probe.ch); !ok {
					hooks = false
					r.NotExhaustive("the LRU store is not the structure the state hook reads: histories are enumerated without state merging to a depth bound")
				}
			}
			var cfgs []*cfg
			unit := func(l, k int, vals []int, sym bool) *cfg {
				return &cfg{Name: fmt.Sprintf("unit L=%d K=%d sym=%v", l, k, sym), Limit: l, Keys: k, Values: vals, Sym: sym}
			}
			if hooks {
				for _, l := range []int{1, 2, 3} {
					cfgs = append(cfgs, unit(l, l+2, []int{0, 1}, false))
				}
				cfgs = append(cfgs, unit(4, 5, []int{0, 1}, false), unit(5, 6, []int{7}, false))
				cfgs = append(cfgs, &cfg{Name: "default size func L=2 K=3", Limit: 2, Keys: 3, Values: []int{0, 1}, NoSize: true})
				for _, l := range []int{2, 3, 4} {
					cfgs = append(cfgs, &cfg{Name: fmt.Sprintf("size=value L=%d K=3", l), Limit: l, Keys: 3, Values: []int{0, 1, 2, 3, l + 1}, BySize: true})
				}
				cfgs = append(cfgs, &cfg{Name: "size=value L=4 K=4", Limit: 4, Keys: 4, Values: []int{0, 1, 2, 3}, BySize: true})
				// Key-symmetric search reaches the limits where F2 lives on every change.
				cfgs = append(cfgs, unit(6, 7, []int{7}, true), unit(7, 8, []int{7}, true), unit(8, 9, []int{7}, true))
				// key-symmetric with two sizes: one Put can evict several entries from a heap of seven
				cfgs = append(cfgs, &cfg{Name: "size=value L=7 K=8 sym=true", Limit: 7, Keys: 8, Values: []int{1, 4}, BySize: true, Sym: true})
				if !r.Quick() {
					cfgs = append(cfgs, unit(6, 7, []int{7}, false), unit(5, 7, []int{0, 1}, false), unit(9, 10, []int{7}, true),
						&cfg{Name: "size=value L=5 K=4", Limit: 5, Keys: 4, Values: []int{0, 1, 2, 3, 5, 6}, BySize: true},
						&cfg{Name: "size=value L=6 K=5", Limit: 6, Keys: 5, Values: []int{0, 1, 2, 3}, BySize: true})
				}
			} else {
				cfgs = append(cfgs, unit(2, 3, []int{0, 1}, false), &cfg{Name: "size=value L=3 K=3", Limit: 3, Keys: 3, Values: []int{0, 1, 2, 4}, BySize: true})
			}
			var summary []map[string]any
			for _, c := range cfgs {
				depth := 0
				if !hooks {
					depth = mc.Pick(r, 5, 6)
				}
				res := makeBFS(c, &cnt, hooks, depth).Run(r)
				summary = append(summary, map[string]any{"config": c.Name, "states": res.States, "transitions": res.Transitions,
					"depth": res.Depth, "exhaustive": res.Exhaustive, "violating_transitions": res.Violations})
				fmt.Printf("  %-28s states=%d transitions=%d depth=%d violations=%d exhaustive=%v\n", c.Name, res.States, res.Transitions, res.Depth, res.Violations, res.Exhaustive)
			}
			if hooks {
				// every history to a small depth without merging (hidden state no key shows);
				// 16 operations per step: depth 6 would be 28 M histories and 25 GB
				d := 5
				for _, c := range []*cfg{unit(2, 3, []int{0, 1}, false), {Name: "size=value L=3 K=2", Limit: 3, Keys: 2, Values: []int{0, 1, 2, 4}, BySize: true}} {
					c.Name += fmt.Sprintf(" unmerged to depth %d", d)
					res := makeBFS(c, &cnt, false, d).Run(r)
					summary = append(summary, map[string]any{"config": c.Name, "histories": res.States, "transitions": res.Transitions, "exhaustive": res.Exhaustive, "violating_transitions": res.Violations})
					fmt.Printf("  %-28s histories=%d violations=%d\n", c.Name, res.States, res.Violations)
				}
			}
			r.Extra("configurations", summary)
			r.Count("evictions", cnt.evictions)
			r.Count("puts_evicting_more_than_one", cnt.multiEvict)
			r.Count("puts_refused", cnt.refused)
			r.Count("puts_replacing", cnt.replaced)
			r.Count("puts_of_zero_size", cnt.zeroSize)
			r.Count("states_with_index_heap_mismatch(informational)", cnt.indexMismatch)
			r.AddEval(0, 0, 0, cnt.evictions+cnt.replaced)
			r.Rule("BFS to closure over Put/Get/Has/Remove/Clear for each (limit, keys, values, size function) configuration; states merged by heap layout of (key, clock rank, value) + size + count, with key identities dropped in the key-symmetric configurations; non-trivial = transitions that evict or replace")
			r.Assume("only the order of access clocks matters (comparePrio), so clocks are abstracted to ranks")
			r.Assume("key symmetry: the cache and store touch keys only through map lookup and ==")
			r.Sample(map[string]any{"config": "unit L=7 K=8", "ops": "Put 0..6, Put 0, Put 3, Remove 4, Put 0,1,2,4, Put 7 (F2 witness: evicts 6 instead of 5)"})
		},
		Replay: func(c mc.Case) *mc.Failure {
			var cf cfg
			if err := mc.Unmarshal(c.Config, &cf); err != nil {
				return mc.Failf(-1, "bad config: %v", err)
			}
			var local counters
			return makeBFS(&cf, &local, mc.HooksEnabled, 0).Replay(c)
		},
	}, mc.Harness{
		Name: "lru-long", HangLimit: 30 * time.Minute,
		Explore: func(r *mc.Run) {
			var cases []llong
			steps := mc.Pick(r, int64(70000), int64(1<<22))
			for _, lk := range [][2]int{{2, 3}, {3, 5}, {8, 12}, {17, 30}, {64, 100}, {300, 400}} {
				cases = append(cases, llong{Limit: lk[0], Keys: lk[1], Steps: steps}, llong{Limit: lk[0], Keys: lk[1], Steps: steps, Hot: true})
				cases = append(cases, llong{Limit: 2 * lk[0], Keys: lk[1], Steps: steps / 2, BySize: true})
			}
			if !r.Quick() {
				// beyond 2^31 accesses (a 32-bit clock would wrap)
				cases = append(cases, llong{Limit: 2, Keys: 3, Steps: 1<<31 + 100000, Hot: true})
			}
			var calls int64
			mc.ParallelFor(len(cases), r.Workers, func(i int) {
				if f := checkLLong(cases[i]); f != nil {
					r.Violation(mc.Case{Harness: "lru-long", Trace: mc.J(cases[i]), Msg: f.Msg, Step: f.Step})
				}
				atomic.AddInt64(&calls, cases[i].Steps)
			})
			n := int64(len(cases))
			r.AddEval(n, calls, calls, n)
			r.Rule("fixed long histories (a linear congruential mix of Get/Put/Has/Remove and rare Clear; uniform keys or one hot key) of 70000 / 4M calls (one of 2^31 in the thorough tier) on caches of limit 2...300, unit sizes and size = value, against the reference LRU after every call: return values, eviction callbacks in order, Len, Size, Has of every key")
			r.Sample(llong{Limit: 8, Keys: 12, Steps: 70000, Hot: true})
		},
		Replay: func(c mc.Case) *mc.Failure {
			var l llong
			if err := mc.Unmarshal(c.Trace, &l); err != nil {
				return mc.Failf(-1, "bad trace: %v", err)
			}
			return checkLLong(l)
		},
	})
}
