// Package mc is the shared core of the bounded exhaustive explorers used by
// the checks under /verif/checks: run bookkeeping (evidence, violations,
// replay), explicit-state BFS over real objects (bfs.go), the choice tree with
// deviation bounding (choice.go), the cooperative scheduler (sched.go) and
// bounded-exhaustive input enumeration helpers (enum.go).
package mc

import (
	"encoding/json"
	"flag"
	"fmt"
	"os"
	"path/filepath"
	"runtime"
	"runtime/debug"
	"sort"
	"strconv"
	"sync"
	"sync/atomic"
	"time"
)

// A Case is one replayable element of an explored space: an operation
// history, an input, a schedule. Harness names the replay function.
type Case struct {
	Harness string          `json:"harness"`
	Config  json.RawMessage `json:"config,omitempty"`
	Trace   json.RawMessage `json:"trace"`
	Msg     string          `json:"msg,omitempty"`
	Step    int             `json:"step"` // index of the failing step, -1 if n/a
}

// Failure is what a replay or a step reports when the oracle disagrees.
type Failure struct {
	Step int
	Msg  string
}

func (f *Failure) Error() string { return fmt.Sprintf("step %d: %s", f.Step, f.Msg) }

// Failf builds a Failure.
func Failf(step int, format string, args ...any) *Failure {
	return &Failure{Step: step, Msg: fmt.Sprintf(format, args...)}
}

// A Harness explores one space and can replay single cases of it.
type Harness struct {
	Name    string
	Explore func(r *Run)
	// Replay re-executes one case on the current build without the explorer.
	// nil means the case passes.
	Replay func(c Case) *Failure
	// HangLimit, if set, replaces mc.HangLimit when replaying this harness's cases.
	HangLimit time.Duration
}

// HarnessStats is the per-harness part of the evidence.
type HarnessStats struct {
	States      int64            `json:"states"`
	Transitions int64            `json:"transitions"`
	Evaluations int64            `json:"evaluations"`
	Nontrivial  int64            `json:"distinct_nontrivial"`
	Exhaustive  bool             `json:"exhaustive"`
	Bounds      map[string]any   `json:"bounds,omitempty"`
	Counters    map[string]int64 `json:"counters,omitempty"`
	Outcomes    int64            `json:"distinct_outcomes,omitempty"`
	Note        string           `json:"note,omitempty"`
	WallS       float64          `json:"wall_s"`
}

// Run carries the state of one invocation of a check binary.
type Run struct {
	ID      string
	Tier    string
	Seed    int64
	Workers int
	Hooks   bool
	Start   time.Time
	// Deadline is the tier budget; explorers stop expanding when it passes
	// and report exhaustive=false.
	Deadline time.Time

	mu         sync.Mutex
	cur        string
	stats      map[string]*HarnessStats
	order      []string
	violations []Case
	nviol      int64
	unrepro    []Case
	samples    []any
	assume     []string
	rule       []string
	extra      map[string]any
	harnesses  map[string]Harness
	maxViol    int
}

// MaxStoredViolations bounds the violation list kept in memory / written out.
const MaxStoredViolations = 1_000_000

// Stats returns the stats record of the harness being explored.
func (r *Run) Stats() *HarnessStats {
	r.mu.Lock()
	defer r.mu.Unlock()
	return r.stats[r.cur]
}

// Quick reports whether this is the quick tier.
func (r *Run) Quick() bool { return r.Tier != "thorough" }

// Pick returns q in the quick tier and t in the thorough tier.
func Pick[T any](r *Run, q, t T) T {
	if r.Quick() {
		return q
	}
	return t
}

// Expired reports whether the tier budget is used up.
func (r *Run) Expired() bool { return time.Now().After(r.Deadline) }

// Violation records a violating case. It is safe for concurrent use.
func (r *Run) Violation(c Case) {
	n := atomic.AddInt64(&r.nviol, 1)
	if n > MaxStoredViolations {
		return
	}
	r.mu.Lock()
	r.violations = append(r.violations, c)
	r.mu.Unlock()
}

// NumViolations reports how many violations were recorded so far.
func (r *Run) NumViolations() int64 { return atomic.LoadInt64(&r.nviol) }

// Sample adds an explored case to the evidence samples (at most 12 are kept).
func (r *Run) Sample(v any) {
	r.mu.Lock()
	if len(r.samples) < 12 {
		r.samples = append(r.samples, v)
	}
	r.mu.Unlock()
}

// Assume records an assumption for the evidence.
func (r *Run) Assume(s string) { r.mu.Lock(); r.assume = append(r.assume, s); r.mu.Unlock() }

// Rule records how cases are enumerated and what makes one non-trivial.
func (r *Run) Rule(s string) { r.mu.Lock(); r.rule = append(r.rule, s); r.mu.Unlock() }

// Extra records an additional coverage key.
func (r *Run) Extra(k string, v any) { r.mu.Lock(); r.extra[k] = v; r.mu.Unlock() }

// Count adds n to a named coverage counter of the current harness.
func (r *Run) Count(name string, n int64) {
	r.mu.Lock()
	s := r.stats[r.cur]
	if s.Counters == nil {
		s.Counters = map[string]int64{}
	}
	s.Counters[name] += n
	r.mu.Unlock()
}

// Bound records a bound of the current harness.
func (r *Run) Bound(name string, v any) {
	r.mu.Lock()
	s := r.stats[r.cur]
	if s.Bounds == nil {
		s.Bounds = map[string]any{}
	}
	s.Bounds[name] = v
	r.mu.Unlock()
}

// AddEval adds to the evaluation counters of the current harness; each
// evaluation is one execution of real code, hence also a validated trace.
func (r *Run) AddEval(states, transitions, evals, nontrivial int64) {
	r.mu.Lock()
	s := r.stats[r.cur]
	s.States += states
	s.Transitions += transitions
	s.Evaluations += evals
	s.Nontrivial += nontrivial
	r.mu.Unlock()
}

// NotExhaustive marks the current harness as cut short, with a reason.
func (r *Run) NotExhaustive(why string) {
	r.mu.Lock()
	s := r.stats[r.cur]
	s.Exhaustive = false
	if s.Note != "" {
		s.Note += "; "
	}
	s.Note += why
	r.mu.Unlock()
}

func envInt(name string, def int64) int64 {
	if v := os.Getenv(name); v != "" {
		if n, err := strconv.ParseInt(v, 10, 64); err == nil {
			return n
		}
	}
	return def
}

// ---- hang watchdog ----
//
// An operation of the code under test that never returns (a self-deadlock, an
// endless loop) must become a violation, not a check that hangs or dies with
// "all goroutines are asleep". Explorers register the case they are about to
// execute; a watchdog goroutine reports a case that stays in flight too long.

// HangLimit is how long one operation may take (they take microseconds).
var HangLimit = 30 * time.Second

type flight struct {
	since time.Time
	desc  func() Case
	limit time.Duration // 0: HangLimit
}

var (
	flights   sync.Map // overflow: token -> *flight
	slots     [4096]atomic.Pointer[flight]
	flightID  int64
	onHang    func(*Case)
	hangOnce  sync.Once
	coarseNow atomic.Int64 // unix nanoseconds, refreshed by the watchdog
)

// InFlight registers an operation that is about to run; call the returned
// function when it has returned. It costs two atomic operations.
func InFlight(desc func() Case) func() { return InFlightLimit(desc, 0) }

// InFlightLimit is InFlight for an operation that is known to be long (inputs
// of tens of thousands of elements): limit replaces HangLimit.
func InFlightLimit(desc func() Case, limit time.Duration) func() {
	id := atomic.AddInt64(&flightID, 1)
	f := &flight{time.Unix(0, coarseNow.Load()), desc, limit}
	sl := &slots[id&4095]
	if sl.CompareAndSwap(nil, f) {
		return func() { sl.Store(nil) }
	}
	flights.Store(id, f)
	return func() { flights.Delete(id) }
}

// memoryLimit is the heap size at which the watchdog steps in: 16 GiB, or 30%
// of the machine's memory if that is less (but at least 12 GiB), or
// VERIF_MEM_LIMIT_GB (the largest legitimate
// heap of any check is about 7 GiB, in the thorough tier).
func memoryLimit() uint64 {
	limit := uint64(16) << 30
	if data, err := os.ReadFile("/proc/meminfo"); err == nil {
		var kb uint64
		if _, err := fmt.Sscanf(string(data), "MemTotal: %d kB", &kb); err == nil && kb > 0 {
			if l := kb << 10 / 100 * 30; l < limit {
				limit = max(l, 12<<30) // never below 12 GiB: the thorough tier legitimately uses 7
			}
		}
	}
	if v := envInt("VERIF_MEM_LIMIT_GB", 0); v > 0 {
		limit = uint64(v) << 30
	}
	return limit
}

func startWatchdog() {
	coarseNow.Store(time.Now().UnixNano())
	go func() {
		check := func(f *flight) {
			if f == nil {
				return
			}
			limit := HangLimit
			if f.limit > 0 {
				limit = f.limit
			}
			if time.Since(f.since) > limit+2*time.Second && onHang != nil {
				hangOnce.Do(func() {
					c := f.desc()
					c.Msg = fmt.Sprintf("hang: the operation did not return within %v: %s", limit, c.Msg)
					onHang(&c)
				})
			}
		}
		go func() {
			memLimit := memoryLimit()
			for {
				time.Sleep(200 * time.Millisecond)
				// An operation that allocates without bound (a corrupted chain walked
				// and copied forever) exhausts memory long before HangLimit and would
				// kill the check instead of failing it: when the heap passes the limit,
				// the operation that has been in flight longest (at least 2 s) is
				// reported like a hang.
				var ms runtime.MemStats
				runtime.ReadMemStats(&ms)
				if ms.HeapAlloc <= memLimit || onHang == nil {
					continue
				}
				var oldest *flight
				consider := func(f *flight) {
					if f != nil && time.Since(f.since) > 2*time.Second && (oldest == nil || f.since.Before(oldest.since)) {
						oldest = f
					}
				}
				for i := range slots {
					consider(slots[i].Load())
				}
				flights.Range(func(k, v any) bool { consider(v.(*flight)); return true })
				if oldest != nil {
					hangOnce.Do(func() {
						c := oldest.desc()
						c.Msg = fmt.Sprintf("hang: the heap grew to %d MiB while this operation was in flight for %v (unbounded allocation): %s", ms.HeapAlloc>>20, time.Since(oldest.since).Round(time.Second), c.Msg)
						onHang(&c)
					})
				}
			}
		}()
		for {
			time.Sleep(time.Second)
			coarseNow.Store(time.Now().UnixNano())
			for i := range slots {
				check(slots[i].Load())
			}
			flights.Range(func(k, v any) bool { check(v.(*flight)); return true })
		}
	}()
}

// HooksEnabled is set by the hook glue of each check (build tag verif).
var HooksEnabled = false

// Main is the entry point of every check binary.
func Main(id string, hs ...Harness) {
	tier := flag.String("tier", "quick", "quick or thorough")
	replay := flag.String("replay", "", "replay one case file and exit")
	replayAll := flag.String("replay-all", "", "replay every case of a JSON-lines file")
	statusOut := flag.String("status-out", "", "with -replay-all: write one status per case")
	violOut := flag.String("viol-out", "", "write all violating cases (JSON lines) here")
	noVerdict := flag.Bool("no-verdict", false, "explore and write -viol-out, but print no VIOLATION lines and exit 0")
	evidence := flag.String("evidence", "", "evidence file to write")
	replayDir := flag.String("replay-dir", "/verif/replays", "where violation replay files go")
	budget := flag.Duration("budget", 0, "tier budget (0 = default for tier)")
	only := flag.String("only", "", "explore only this harness")
	tag := flag.String("tag", "", "suffix for replay file names")
	flag.Parse()

	hm := map[string]Harness{}
	for _, h := range hs {
		hm[h.Name] = h
	}

	if *replay != "" {
		data, err := os.ReadFile(*replay)
		if err != nil {
			fmt.Fprintln(os.Stderr, "replay:", err)
			os.Exit(2)
		}
		var c Case
		if err := json.Unmarshal(data, &c); err != nil {
			fmt.Fprintln(os.Stderr, "replay: bad case file:", err)
			os.Exit(2)
		}
		h, ok := hm[c.Harness]
		if !ok {
			fmt.Fprintln(os.Stderr, "replay: unknown harness", c.Harness)
			os.Exit(2)
		}
		if f := SafeReplay(h, c); f != nil {
			fmt.Printf("replayed %s: FAILS: %v\n", *replay, f)
			fmt.Printf("VIOLATION property=%s replay=%s\n", id, *replay)
			os.Exit(1)
		}
		fmt.Printf("replayed %s: passes\n", *replay)
		os.Exit(0)
	}

	if *replayAll != "" {
		cases, err := ReadCases(*replayAll)
		if err != nil {
			fmt.Fprintln(os.Stderr, "replay-all:", err)
			os.Exit(2)
		}
		status := make([]int, len(cases)) // -2 = passes, else failing step (>= -1)
		ParallelFor(len(cases), runtime.NumCPU(), func(i int) {
			h, ok := hm[cases[i].Harness]
			if !ok {
				// not replayable (an escaped panic of a harness, an unknown name):
				// never "passes" - it must not be excused by a known finding
				status[i] = -1
				return
			}
			if f := SafeReplay(h, cases[i]); f != nil {
				status[i] = f.Step
			} else {
				status[i] = -2
			}
		})
		out, _ := json.Marshal(status)
		if *statusOut != "" {
			os.WriteFile(*statusOut, out, 0o644)
		} else {
			fmt.Println(string(out))
		}
		os.Exit(0)
	}

	r := &Run{
		ID: id, Tier: *tier, Seed: envInt("VERIF_SEED", 0),
		Workers: int(envInt("VERIF_WORKERS", int64(runtime.NumCPU()))),
		Hooks:   HooksEnabled,
		Start:   time.Now(), stats: map[string]*HarnessStats{}, extra: map[string]any{},
		harnesses: hm,
	}
	if t := os.Getenv("VERIF_TIER"); t != "" && !isFlagSet("tier") {
		r.Tier = t
	}
	if r.Tier != "quick" && r.Tier != "thorough" {
		fmt.Fprintln(os.Stderr, "unknown tier", r.Tier)
		os.Exit(2)
	}
	b := *budget
	if b == 0 {
		b = Pick(r, 100*time.Second, 40*time.Minute)
	}
	r.Deadline = r.Start.Add(b)

	finish := func(hang *Case) {
		// Confirm violations by independent replay; the first few five times.
		// (A hang cannot be replayed in this process: it is reported as found.)
		var confirmed []Case
		if hang != nil {
			r.mu.Lock()
			confirmed = append([]Case{*hang}, r.violations...)
			r.mu.Unlock()
			r.NotExhaustive("an operation of the code under test did not return (hang); the exploration was abandoned")
		} else {
			confirmed = r.confirm()
		}
		if *violOut != "" {
			if err := WriteCases(*violOut, confirmed); err != nil {
				fmt.Fprintln(os.Stderr, "viol-out:", err)
				os.Exit(2)
			}
		}
		ev := *evidence
		if ev == "" {
			ev = filepath.Join("/verif/evidence", id+".json")
		}
		if n := r.NumViolations(); n > MaxStoredViolations {
			fmt.Printf("WARNING: %d violating cases were found; only the first %d are kept and examined\n", n, MaxStoredViolations)
			r.extra["violations_overflow"] = n - MaxStoredViolations
		}
		if len(r.unrepro) > 0 {
			fmt.Printf("WARNING: %d violation(s) found by the explorer did not reproduce on independent replay and are NOT reported; this points at the harness (see 'unreproduced' in the evidence). First: %s: %s\n", len(r.unrepro), r.unrepro[0].Harness, r.unrepro[0].Msg)
		}
		r.writeEvidence(ev, len(confirmed))
		if len(confirmed) == 0 || *noVerdict {
			os.Exit(0)
		}
		os.MkdirAll(*replayDir, 0o755)
		for i, c := range confirmed {
			if i >= 5 {
				break
			}
			p := filepath.Join(*replayDir, fmt.Sprintf("%s-%s%d.json", id, *tag, i))
			data, _ := json.MarshalIndent(c, "", " ")
			os.WriteFile(p, data, 0o644)
			fmt.Printf("violation: %s step %d: %s\n", c.Harness, c.Step, c.Msg)
			fmt.Printf("VIOLATION property=%s replay=%s\n", id, p)
		}
		os.Exit(1)
	}
	onHang = finish
	startWatchdog()
	for _, h := range hs {
		if *only != "" && h.Name != *only {
			continue
		}
		r.cur = h.Name
		r.order = append(r.order, h.Name)
		st := &HarnessStats{Exhaustive: true}
		r.stats[h.Name] = st
		t0 := time.Now()
		EscapedPanic = func(p any, stack []byte) {
			st := string(stack)
			if len(st) > 1500 {
				st = st[:1500]
			}
			r.Violation(Case{Harness: "(escaped panic in " + h.Name + ")", Trace: J("not individually replayable; rerun the check"), Msg: fmt.Sprintf("panic outside a guarded check: %v\n%s", p, st), Step: -1})
		}
		protect(func() { h.Explore(r) })
		st.WallS = time.Since(t0).Seconds()
		fmt.Printf("[%s] %s: states=%d transitions=%d evaluations=%d nontrivial=%d exhaustive=%v violations_so_far=%d (%.1fs)\n",
			id, h.Name, st.States, st.Transitions, st.Evaluations, st.Nontrivial, st.Exhaustive, r.NumViolations(), st.WallS)
	}

	finish(nil)
}

func isFlagSet(name string) bool {
	set := false
	flag.Visit(func(f *flag.Flag) {
		if f.Name == name {
			set = true
		}
	})
	return set
}

// SafeReplay runs a harness replay, turning a panic of the harness itself
// into a failure at step -1 and a replay that does not return within
// HangLimit into a failure ("hang").
func SafeReplay(h Harness, c Case) *Failure {
	done := make(chan *Failure, 1)
	go func() {
		defer func() {
			if p := recover(); p != nil {
				done <- Failf(-1, "panic during replay: %v", p)
			}
		}()
		done <- h.Replay(c)
	}()
	limit := HangLimit
	if h.HangLimit > 0 {
		limit = h.HangLimit
	}
	t := time.NewTimer(limit)
	defer t.Stop()
	select {
	case f := <-done:
		return f
	case <-t.C:
		return Failf(c.Step, "hang: the replay did not return within %v", limit)
	}
}

// confirm replays recorded violations without the explorer. A violation that
// does not reproduce is not reported (it points at the harness): it is
// listed under "unreproduced" and the run is marked non-exhaustive.
func (r *Run) confirm() []Case {
	r.mu.Lock()
	vs := r.violations
	r.mu.Unlock()
	ok := make([]bool, len(vs))
	ParallelFor(len(vs), r.Workers, func(i int) {
		h, found := r.harnesses[vs[i].Harness]
		if !found || h.Replay == nil {
			ok[i] = true
			return
		}
		n := 1
		if i < 20 {
			n = 5
		}
		good := true
		for k := 0; k < n; k++ {
			if SafeReplay(h, vs[i]) == nil {
				good = false
				break
			}
		}
		ok[i] = good
	})
	var out []Case
	for i, c := range vs {
		if ok[i] {
			out = append(out, c)
		} else {
			r.unrepro = append(r.unrepro, c)
		}
	}
	return out
}

func (r *Run) writeEvidence(path string, nviol int) {
	var states, trans, evals, nontriv int64
	exhaustive := true
	hs := map[string]*HarnessStats{}
	for _, name := range r.order {
		s := r.stats[name]
		hs[name] = s
		states += s.States
		trans += s.Transitions
		evals += s.Evaluations
		nontriv += s.Nontrivial
		if !s.Exhaustive {
			exhaustive = false
		}
	}
	if len(r.unrepro) > 0 {
		exhaustive = false
	}
	cov := map[string]any{
		"states":                        states,
		"transitions":                   trans,
		"traces_validated_against_impl": evals,
		"evaluations":                   evals,
		"distinct_nontrivial":           nontriv,
		"rule":                          joinLines(r.rule),
		"samples":                       r.samples,
		"exhaustive":                    exhaustive,
		"harnesses":                     hs,
		"hooks":                         r.Hooks,
		"workers":                       r.Workers,
		"violations_total":              r.NumViolations(),
	}
	if len(r.unrepro) > 0 {
		n := len(r.unrepro)
		if n > 5 {
			n = 5
		}
		cov["unreproduced"] = r.unrepro[:n]
		cov["unreproduced_count"] = len(r.unrepro)
	}
	ks := make([]string, 0, len(r.extra))
	for k := range r.extra {
		ks = append(ks, k)
	}
	sort.Strings(ks)
	for _, k := range ks {
		cov[k] = r.extra[k]
	}
	if len(r.samples) == 0 {
		cov["samples"] = []any{"(none recorded)"}
	}
	ev := map[string]any{
		"property_id": r.ID,
		"tier":        r.Tier,
		"seed":        r.Seed,
		"level":       "model_checking",
		"coverage":    cov,
		"assumptions": r.assume,
		"wall_s":      time.Since(r.Start).Seconds(),
		"violations":  nviol,
	}
	if r.assume == nil {
		ev["assumptions"] = []string{}
	}
	data, err := json.MarshalIndent(ev, "", " ")
	if err != nil {
		fmt.Fprintln(os.Stderr, "evidence:", err)
		os.Exit(2)
	}
	os.MkdirAll(filepath.Dir(path), 0o755)
	if err := os.WriteFile(path, append(data, '\n'), 0o644); err != nil {
		fmt.Fprintln(os.Stderr, "evidence:", err)
		os.Exit(2)
	}
}

func joinLines(ss []string) string {
	out := ""
	for i, s := range ss {
		if i > 0 {
			out += " | "
		}
		out += s
	}
	return out
}

// ReadCases reads a JSON-lines case file.
func ReadCases(path string) ([]Case, error) {
	data, err := os.ReadFile(path)
	if err != nil {
		return nil, err
	}
	var out []Case
	dec := json.NewDecoder(bytesReader(data))
	for dec.More() {
		var c Case
		if err := dec.Decode(&c); err != nil {
			return nil, err
		}
		out = append(out, c)
	}
	return out, nil
}

// WriteCases writes cases as JSON lines.
func WriteCases(path string, cs []Case) error {
	f, err := os.Create(path)
	if err != nil {
		return err
	}
	defer f.Close()
	enc := json.NewEncoder(f)
	for _, c := range cs {
		if err := enc.Encode(c); err != nil {
			return err
		}
	}
	return nil
}

// J marshals v, panicking on error (harness data is always marshalable).
func J(v any) json.RawMessage {
	b, err := json.Marshal(v)
	if err != nil {
		panic(err)
	}
	return b
}

// EscapedPanic is called when code under test panics outside a guarded
// check (harness bookkeeping that calls into the library). Main turns it into
// a violation; it is never silently dropped.
var EscapedPanic = func(p any, stack []byte) { panic(p) }

func protect(f func()) {
	defer func() {
		if p := recover(); p != nil {
			EscapedPanic(p, debug.Stack())
		}
	}()
	f()
}

// ParallelFor runs f(i) for i in [0,n) on w workers.
func ParallelFor(n, w int, f func(i int)) {
	if w < 1 {
		w = 1
	}
	if n < w {
		w = n
	}
	if w <= 1 {
		for i := 0; i < n; i++ {
			protect(func() { f(i) })
		}
		return
	}
	var next int64 = -1
	var wg sync.WaitGroup
	for k := 0; k < w; k++ {
		wg.Add(1)
		go func() {
			defer wg.Done()
			for {
				i := int(atomic.AddInt64(&next, 1))
				if i >= n {
					return
				}
				protect(func() { f(i) })
			}
		}()
	}
	wg.Wait()
}

// Unmarshal decodes JSON harness data.
func Unmarshal(data []byte, v any) error { return json.Unmarshal(data, v) }
