package mc

import (
	"fmt"
	"sync"
	"sync/atomic"
)

// Dev is one departure from the default choice (alternative 0) at choice
// point Pos of an execution.
type Dev struct {
	Pos int `json:"pos"`
	Alt int `json:"alt"`
}

// Chooser is handed to a harness body; every source of nondeterminism of the
// body must be a call to Choose. An execution is fully determined by its
// list of deviations: everywhere else alternative 0 (the default) is taken.
type Chooser struct {
	devs   []Dev
	di     int
	pos    int
	width  []int32
	free   []bool
	failed string
}

// Choose returns the alternative taken at this choice point, 0 <= result < n.
// Alternative 0 is the default and costs nothing; any other alternative costs
// one deviation, unless free is set (then all alternatives are free).
func (c *Chooser) Choose(n int, free bool) int {
	p := c.pos
	c.pos++
	c.width = append(c.width, int32(n))
	c.free = append(c.free, free)
	if c.di < len(c.devs) && c.devs[c.di].Pos == p {
		a := c.devs[c.di].Alt
		c.di++
		if a >= n {
			// Nondeterminism the explorer does not own: the replayed prefix
			// no longer offers the recorded alternative.
			c.failed = fmt.Sprintf("replay divergence at choice point %d: alternative %d recorded but only %d offered", p, a, n)
			return 0
		}
		return a
	}
	return 0
}

// Points is the number of choice points seen so far.
func (c *Chooser) Points() int { return c.pos }

// DFS explores a choice tree with deviation bounding.
type DFS struct {
	Name   string
	Config any
	// Body runs one execution. A non-nil result is a violation.
	Body func(c *Chooser) *Failure
	// MaxDev is the deviation bound (<0: unbounded).
	MaxDev int
	// MaxExec caps the number of executions (0 = none); hitting it is reported.
	MaxExec int64
	Workers int
	// HangWatch registers every execution with the hang watchdog. Only for
	// bodies whose whole execution takes far less than mc.HangLimit; bodies
	// with long executions register their individual steps instead.
	HangWatch bool
}

// DFSResult summarises an exploration.
type DFSResult struct {
	Executions int64
	ByDevs     []int64 // executions by number of paid deviations
	Exhaustive bool
	Violations int64
	Divergence string
}

type dfsState struct {
	d       *DFS
	r       *Run
	cfg     []byte
	execs   int64
	viols   int64
	byDevs  [16]int64
	stopped int32
	mu      sync.Mutex
	diverge string
}

func (st *dfsState) runOne(devs []Dev) (*Chooser, *Failure) {
	c := &Chooser{devs: devs}
	var f *Failure
	if st.r != nil && st.d.HangWatch {
		done := InFlight(func() Case {
			return Case{Harness: st.d.Name, Config: st.cfg, Trace: J(devs), Msg: "execution with these deviations", Step: -1}
		})
		defer done()
	}
	func() {
		defer func() {
			if p := recover(); p != nil {
				f = Failf(c.pos, "panic: %v", p)
			}
		}()
		f = st.d.Body(c)
	}()
	return c, f
}

func (st *dfsState) explore(devs []Dev, paid int) {
	if atomic.LoadInt32(&st.stopped) != 0 {
		return
	}
	n := atomic.AddInt64(&st.execs, 1)
	if st.d.MaxExec > 0 && n > st.d.MaxExec || (n%256 == 0 && st.r.Expired()) {
		atomic.StoreInt32(&st.stopped, 1)
		return
	}
	c, f := st.runOne(devs)
	if paid < len(st.byDevs) {
		atomic.AddInt64(&st.byDevs[paid], 1)
	}
	if c.failed != "" {
		st.mu.Lock()
		st.diverge = c.failed
		st.mu.Unlock()
		atomic.StoreInt32(&st.stopped, 1)
		return
	}
	if f != nil {
		atomic.AddInt64(&st.viols, 1)
		st.r.Violation(Case{Harness: st.d.Name, Config: st.cfg, Trace: J(devs), Msg: f.Msg, Step: f.Step})
		// Deviations after the failing step cannot matter; those before it
		// lead to different executions and are still explored.
	}
	start := 0
	if len(devs) > 0 {
		start = devs[len(devs)-1].Pos + 1
	}
	limit := len(c.width)
	if f != nil && f.Step >= 0 && f.Step < limit {
		limit = f.Step + 1
	}
	for i := start; i < limit; i++ {
		w := int(c.width[i])
		if w <= 1 {
			continue
		}
		cost := 1
		if c.free[i] {
			cost = 0
		}
		if st.d.MaxDev >= 0 && paid+cost > st.d.MaxDev {
			continue
		}
		for alt := 1; alt < w; alt++ {
			nd := make([]Dev, len(devs)+1)
			copy(nd, devs)
			nd[len(devs)] = Dev{Pos: i, Alt: alt}
			st.explore(nd, paid+cost)
		}
	}
}

// Run explores all executions within the deviation bound.
func (d *DFS) Run(r *Run) DFSResult {
	st := &dfsState{d: d, r: r, cfg: J(d.Config)}
	w := d.Workers
	if w <= 0 {
		w = r.Workers
	}
	// The default execution, then its children distributed over workers.
	c, f := st.runOne(nil)
	st.execs = 1
	st.byDevs[0] = 1
	if c.failed != "" {
		return DFSResult{Executions: 1, Divergence: c.failed}
	}
	limit := len(c.width)
	if f != nil {
		st.viols++
		r.Violation(Case{Harness: d.Name, Config: st.cfg, Trace: J([]Dev{}), Msg: f.Msg, Step: f.Step})
		if f.Step >= 0 && f.Step < limit {
			limit = f.Step + 1
		}
	}
	type job struct {
		devs []Dev
		paid int
	}
	var jobs []job
	for i := 0; i < limit; i++ {
		cost := 1
		if c.free[i] {
			cost = 0
		}
		if d.MaxDev >= 0 && cost > d.MaxDev {
			continue
		}
		for alt := 1; alt < int(c.width[i]); alt++ {
			jobs = append(jobs, job{[]Dev{{i, alt}}, cost})
		}
	}
	ParallelFor(len(jobs), w, func(i int) { st.explore(jobs[i].devs, jobs[i].paid) })
	res := DFSResult{Executions: st.execs, Exhaustive: st.stopped == 0, Violations: st.viols, Divergence: st.diverge}
	for _, n := range st.byDevs {
		res.ByDevs = append(res.ByDevs, n)
	}
	for len(res.ByDevs) > 1 && res.ByDevs[len(res.ByDevs)-1] == 0 {
		res.ByDevs = res.ByDevs[:len(res.ByDevs)-1]
	}
	if st.stopped != 0 {
		why := "execution cap or tier budget reached"
		if st.diverge != "" {
			why = st.diverge
		}
		r.NotExhaustive(d.Name + ": " + why)
	}
	return res
}

// ReplayDevs re-executes one recorded execution.
func (d *DFS) ReplayDevs(c Case) *Failure {
	var devs []Dev
	if err := Unmarshal(c.Trace, &devs); err != nil {
		return Failf(-1, "bad trace: %v", err)
	}
	st := &dfsState{d: d}
	ch, f := st.runOne(devs)
	if ch.failed != "" {
		return Failf(-1, "%s", ch.failed)
	}
	return f
}
