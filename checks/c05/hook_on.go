//go:build verif

package main

import (
	"verif/mc"

	"github.com/creachadair/mds/heapq"
)

func init() { mc.HooksEnabled = true }

func cloneQ(q *heapq.Queue[int]) *heapq.Queue[int] { return heapq.VerifClone(q) }
