//go:build !verif

package main

import "github.com/creachadair/mds/stack"

func stackCap(s *stack.Stack[int]) int { return -1 }
