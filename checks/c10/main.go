// C10: stack, mlink.List/Queue and ring.Ring preserve their abstract
// sequence. E1 over real containers: the list harness tracks every cursor by
// the identity of its predecessor entry (sentinel / live / detached); the
// ring harness explores all cycle partitions of N labelled elements.
package main

import (
	"fmt"
	"strings"
	"sync/atomic"
	"time"

	"verif/mc"

	"github.com/creachadair/mds/mlink"
	"github.com/creachadair/mds/ring"
	"github.com/creachadair/mds/stack"
)

// ---------------------------------------------------------------------------
// mlink.List with a table of cursors

type lop struct {
	K string `json:"k"` // at find last end | get atend next push add1 add2 set remove truncate | clear
	C int    `json:"c"` // cursor slot
	N int    `json:"n,omitempty"`
}

func (o lop) String() string { return fmt.Sprintf("%s[c%d,%d]", o.K, o.C, o.N) }

type lcfg struct {
	MaxLen  int `json:"max_len"`
	Cursors int `json:"cursors"`
}

const watchdog = 20 * time.Second

var hangSeen int32

// guarded runs f, reporting a panic value or a hang.
func guarded(f func()) (panicked any, hung bool) {
	done := make(chan any, 1)
	go func() {
		defer func() { done <- recover() }()
		f()
	}()
	t := time.NewTimer(watchdog)
	defer t.Stop()
	select {
	case p := <-done:
		return p, false
	case <-t.C:
		atomic.StoreInt32(&hangSeen, 1)
		return nil, true
	}
}

// refCursor: pred is the id of the predecessor entry: 0 = sentinel, >0 = an
// entry id. A cursor whose predecessor entry has been detached is stale.
type refCursor struct {
	set  bool
	pred int
}

type linst struct {
	c             *lcfg
	lst           *mlink.List[int]
	cur           []*mlink.Cursor[int]
	ids           []int        // reference list: entry ids in order (value == id)
	dead          map[int]bool // detached entry ids
	rc            []refCursor
	nextID        int
	cnt           *lcounters
	emptied, used bool
}

type lcounters struct{ staleUses, staleTruncate, setAtEnd, removes, truncates int64 }

func (s *linst) index(id int) int { // position of the element after pred id
	if id == 0 {
		return 0
	}
	for i, x := range s.ids {
		if x == id {
			return i + 1
		}
	}
	return -1
}

func (s *linst) stale(i int) bool { return s.rc[i].set && s.dead[s.rc[i].pred] }

func (s *linst) Enabled() []lop {
	var ops []lop
	for c := 0; c < s.c.Cursors; c++ {
		for n := 0; n <= len(s.ids)+1; n++ {
			ops = append(ops, lop{K: "at", C: c, N: n})
		}
		for n := 0; n <= len(s.ids); n++ { // n == len: predicate matches nothing
			ops = append(ops, lop{K: "find", C: c, N: n})
		}
		ops = append(ops, lop{K: "last", C: c}, lop{K: "end", C: c})
		if !s.rc[c].set {
			continue
		}
		ops = append(ops, lop{K: "next", C: c}, lop{K: "remove", C: c}, lop{K: "truncate", C: c})
		room := s.c.MaxLen - len(s.ids)
		if room >= 1 || s.stale(c) {
			ops = append(ops, lop{K: "push", C: c}, lop{K: "add1", C: c}, lop{K: "set", C: c})
		} else if s.index(s.rc[c].pred) < len(s.ids) {
			ops = append(ops, lop{K: "set", C: c}) // Set on an element does not grow the list
		}
		if room >= 2 || s.stale(c) {
			ops = append(ops, lop{K: "add2", C: c})
		}
	}
	return append(ops, lop{K: "clear"})
}

func (s *linst) Key() string {
	var sb strings.Builder
	fmt.Fprintf(&sb, "n%d e%v", len(s.ids), s.emptied)
	for i, c := range s.rc {
		switch {
		case !c.set:
			sb.WriteString(" -")
		case s.stale(i):
			sb.WriteString(" X")
		default:
			fmt.Fprintf(&sb, " %d", s.index(c.pred))
		}
	}
	return sb.String()
}

func (s *linst) fresh() int { s.nextID++; return s.nextID }

func (s *linst) Apply(o lop, check bool) *mc.Failure {
	switch o.K {
	case "at", "find", "last", "end":
		var c *mlink.Cursor[int]
		pos := 0
		switch o.K {
		case "at":
			c = s.lst.At(o.N)
			pos = min(o.N, len(s.ids))
		case "find":
			want := -1
			if o.N < len(s.ids) {
				want = s.ids[o.N]
			}
			c = s.lst.Find(func(v int) bool { return v == want })
			pos = min(o.N, len(s.ids))
		case "last":
			c = s.lst.Last()
			pos = max(len(s.ids)-1, 0)
		case "end":
			c = s.lst.End()
			pos = len(s.ids)
		}
		s.cur[o.C] = c
		pred := 0
		if pos > 0 {
			pred = s.ids[pos-1]
		}
		s.rc[o.C] = refCursor{set: true, pred: pred}
	case "clear":
		s.lst.Clear()
		for _, id := range s.ids {
			s.dead[id] = true
		}
		s.ids = nil
	default:
		c := s.cur[o.C]
		if s.stale(o.C) {
			// Every use must panic "invalid cursor" and leave the list alone.
			if o.K == "truncate" && atomic.LoadInt32(&hangSeen) != 0 {
				return mc.Failf(0, "hang: %v on a stale cursor (not re-executed after the first hang)", o)
			}
			p, hung := guarded(func() {
				switch o.K {
				case "next":
					c.Next()
				case "push":
					c.Push(999)
				case "add1":
					c.Add(999)
				case "add2":
					c.Add(998, 999)
				case "set":
					c.Set(999)
				case "remove":
					c.Remove()
				case "truncate":
					c.Truncate()
				}
			})
			if hung {
				return mc.Failf(0, "hang: %v on a stale cursor did not return within %v", o, watchdog)
			}
			if check {
				atomic.AddInt64(&s.cnt.staleUses, 1)
				if o.K == "truncate" {
					atomic.AddInt64(&s.cnt.staleTruncate, 1)
				}
				if p != "invalid cursor" {
					return mc.Failf(0, "%v on a stale cursor: panic value %v, want \"invalid cursor\"", o, p)
				}
			}
			break
		}
		pos := s.index(s.rc[o.C].pred)
		atEnd := pos == len(s.ids)
		switch o.K {
		case "next":
			got := c.Next()
			if !atEnd {
				s.rc[o.C].pred = s.ids[pos]
				pos++
			}
			if want := pos < len(s.ids) && !atEnd; check && got != want {
				return mc.Failf(0, "%v returned %v, want %v", o, got, want)
			}
		case "push", "add1", "add2", "set":
			if o.K == "set" && !atEnd {
				id := s.fresh()
				c.Set(id)
				// the value changes; the entry (and so every cursor) stays
				s.replaceValue(pos, id)
				break
			}
			n := 1
			if o.K == "add2" {
				n = 2
			}
			var vs []int
			for i := 0; i < n; i++ {
				vs = append(vs, s.fresh())
			}
			switch o.K {
			case "push":
				c.Push(vs[0])
			case "set":
				c.Set(vs[0])
				if check {
					atomic.AddInt64(&s.cnt.setAtEnd, 1)
				}
			default:
				c.Add(vs...)
			}
			s.ids = append(s.ids[:pos:pos], append(append([]int{}, vs...), s.ids[pos:]...)...)
			if o.K == "add1" || o.K == "add2" {
				s.rc[o.C].pred = vs[n-1] // c now points at the original item
			}
		case "remove":
			got := c.Remove()
			want := 0
			if !atEnd {
				want = s.ids[pos]
				s.dead[want] = true
				s.ids = append(s.ids[:pos:pos], s.ids[pos+1:]...)
				if check {
					atomic.AddInt64(&s.cnt.removes, 1)
				}
			}
			if check && got != want {
				return mc.Failf(0, "%v returned %d, want %d", o, got, want)
			}
		case "truncate":
			c.Truncate()
			for _, id := range s.ids[pos:] {
				s.dead[id] = true
			}
			s.ids = s.ids[:pos:pos]
			if check && !atEnd {
				atomic.AddInt64(&s.cnt.truncates, 1)
			}
		}
	}
	if len(s.ids) > 0 {
		s.used = true
	} else if s.used {
		s.emptied = true
	}
	if !check {
		return nil
	}
	return s.observe()
}

// replaceValue models Set on an element: same entry, new value. Entry ids
// double as values, so the id is renamed everywhere.
func (s *linst) replaceValue(pos, id int) {
	old := s.ids[pos]
	s.ids[pos] = id
	for i := range s.rc {
		if s.rc[i].set && s.rc[i].pred == old {
			s.rc[i].pred = id
		}
	}
}

func (s *linst) observe() *mc.Failure {
	n := len(s.ids)
	if s.lst.Len() != n {
		return mc.Failf(0, "Len=%d want %d", s.lst.Len(), n)
	}
	if s.lst.IsEmpty() != (n == 0) {
		return mc.Failf(0, "IsEmpty=%v with %d elements", s.lst.IsEmpty(), n)
	}
	var got []int
	s.lst.Each(func(v int) bool { got = append(got, v); return len(got) <= len(s.ids)+2 })
	if fmt.Sprint(got) != fmt.Sprint(s.ids) {
		return mc.Failf(0, "Each=%v want %v", got, s.ids)
	}
	for stop := 1; stop <= n; stop++ {
		k := 0
		s.lst.Each(func(int) bool { k++; return k < stop })
		if k != stop {
			return mc.Failf(0, "Each did not stop after %d (visited %d)", stop, k)
		}
	}
	for i := 0; i <= n+1; i++ {
		v, ok := s.lst.Peek(i)
		if i < n {
			if !ok || v != s.ids[i] {
				return mc.Failf(0, "Peek(%d)=(%d,%v) want (%d,true)", i, v, ok, s.ids[i])
			}
		} else if ok || v != 0 {
			return mc.Failf(0, "Peek(%d)=(%d,%v) want (0,false)", i, v, ok)
		}
	}
	for i, rc := range s.rc {
		if !rc.set {
			continue
		}
		c := s.cur[i]
		if s.stale(i) {
			for _, m := range []string{"Get", "AtEnd"} {
				p, hung := guarded(func() {
					if m == "Get" {
						c.Get()
					} else {
						c.AtEnd()
					}
				})
				if hung {
					return mc.Failf(0, "hang: %s on stale cursor %d", m, i)
				}
				if p != "invalid cursor" {
					return mc.Failf(0, "%s on stale cursor %d (predecessor entry %d was removed): panic value %v, want \"invalid cursor\"; list %v", m, i, rc.pred, p, s.ids)
				}
			}
			continue
		}
		pos := s.index(rc.pred)
		want := 0
		if pos < n {
			want = s.ids[pos]
		}
		p, _ := guarded(func() {
			if g := c.Get(); g != want {
				panic(fmt.Sprintf("Get=%d want %d", g, want))
			}
			if e := c.AtEnd(); e != (pos == n) {
				panic(fmt.Sprintf("AtEnd=%v want %v", e, pos == n))
			}
		})
		if p != nil {
			return mc.Failf(0, "live cursor %d at position %d of %v: %v", i, pos, s.ids, p)
		}
	}
	return nil
}

func makeListBFS(c *lcfg, cnt *lcounters) *mc.BFS[lop] {
	return &mc.BFS[lop]{
		Name: "list-bfs", Config: c, NRoots: 2, Merge: true,
		Root: func(i int) (mc.Inst[lop], *mc.Failure) {
			s := &linst{c: c, cnt: cnt, dead: map[int]bool{}, cur: make([]*mlink.Cursor[int], c.Cursors), rc: make([]refCursor, c.Cursors)}
			if i == 0 {
				s.lst = mlink.NewList[int]()
			} else {
				s.lst = new(mlink.List[int])
			}
			if f := s.observe(); f != nil {
				return nil, f
			}
			return s, nil
		},
	}
}

// ---------------------------------------------------------------------------
// simple sequences: stack.Stack and mlink.Queue, all histories to a depth

type sop struct {
	K string `json:"k"`
}

func (o sop) String() string { return o.K }

type seqInst struct {
	kind string // stack | queue
	st   *stack.Stack[int]
	q    *mlink.Queue[int]
	ref  []int // stack: top first; queue: front first
	next int
	max  int
}

func (s *seqInst) Enabled() []sop {
	if s.kind == "stack" {
		ops := []sop{{"pop"}, {"clear"}}
		if len(s.ref) < s.max {
			ops = append(ops, sop{"push"}, sop{"add"})
		}
		return ops
	}
	ops := []sop{{"pop"}, {"clear"}}
	if len(s.ref) < s.max {
		ops = append(ops, sop{"add"})
	}
	return ops
}

func (s *seqInst) Key() string {
	if s.kind == "stack" {
		return fmt.Sprintf("%d/%d", len(s.ref), stackCap(s.st))
	}
	return ""
}

func (s *seqInst) Apply(o sop, check bool) *mc.Failure {
	s.next++
	v := s.next
	if s.kind == "stack" {
		switch o.K {
		case "push":
			s.st.Push(v)
			s.ref = append([]int{v}, s.ref...)
		case "add":
			s.st.Add(v)
			s.ref = append([]int{v}, s.ref...)
		case "pop":
			g, ok := s.st.Pop()
			if len(s.ref) == 0 {
				if check && (ok || g != 0) {
					return mc.Failf(0, "stack Pop on empty = (%d,%v)", g, ok)
				}
			} else {
				if check && (!ok || g != s.ref[0]) {
					return mc.Failf(0, "stack Pop=(%d,%v) want (%d,true)", g, ok, s.ref[0])
				}
				s.ref = s.ref[1:]
			}
		case "clear":
			s.st.Clear()
			s.ref = nil
		}
		if !check {
			return nil
		}
		n := len(s.ref)
		if s.st.Len() != n || s.st.IsEmpty() != (n == 0) {
			return mc.Failf(0, "stack Len=%d IsEmpty=%v want %d", s.st.Len(), s.st.IsEmpty(), n)
		}
		wt := 0
		if n > 0 {
			wt = s.ref[0]
		}
		if s.st.Top() != wt {
			return mc.Failf(0, "stack Top=%d want %d", s.st.Top(), wt)
		}
		for i := 0; i <= n+1; i++ {
			g, ok := s.st.Peek(i)
			if i < n && (!ok || g != s.ref[i]) || i >= n && (ok || g != 0) {
				return mc.Failf(0, "stack Peek(%d)=(%d,%v), reference %v", i, g, ok, s.ref)
			}
		}
		sl := s.st.Slice()
		if n == 0 && sl != nil || fmt.Sprint(sl) != fmt.Sprint(s.ref) && n > 0 {
			return mc.Failf(0, "stack Slice=%v want %v", sl, s.ref)
		}
		var each []int
		s.st.Each(func(v int) bool { each = append(each, v); return len(each) <= n+2 })
		if fmt.Sprint(each) != fmt.Sprint(append([]int{}, s.ref...)) && !(n == 0 && len(each) == 0) {
			return mc.Failf(0, "stack Each=%v want %v", each, s.ref)
		}
		for stop := 1; stop <= n; stop++ {
			k := 0
			s.st.Each(func(int) bool { k++; return k < stop })
			if k != stop {
				return mc.Failf(0, "stack Each did not stop after %d", stop)
			}
		}
		return nil
	}
	switch o.K {
	case "add":
		s.q.Add(v)
		s.ref = append(s.ref, v)
	case "pop":
		g, ok := s.q.Pop()
		if len(s.ref) == 0 {
			if check && (ok || g != 0) {
				return mc.Failf(0, "queue Pop on empty = (%d,%v)", g, ok)
			}
		} else {
			if check && (!ok || g != s.ref[0]) {
				return mc.Failf(0, "queue Pop=(%d,%v) want (%d,true)", g, ok, s.ref[0])
			}
			s.ref = s.ref[1:]
		}
	case "clear":
		s.q.Clear()
		s.ref = nil
	}
	if !check {
		return nil
	}
	n := len(s.ref)
	if s.q.Len() != n || s.q.IsEmpty() != (n == 0) {
		return mc.Failf(0, "queue Len=%d IsEmpty=%v want %d", s.q.Len(), s.q.IsEmpty(), n)
	}
	wf := 0
	if n > 0 {
		wf = s.ref[0]
	}
	if s.q.Front() != wf {
		return mc.Failf(0, "queue Front=%d want %d", s.q.Front(), wf)
	}
	for i := 0; i <= n+1; i++ {
		g, ok := s.q.Peek(i)
		if i < n && (!ok || g != s.ref[i]) || i >= n && (ok || g != 0) {
			return mc.Failf(0, "queue Peek(%d)=(%d,%v), reference %v", i, g, ok, s.ref)
		}
	}
	var each []int
	s.q.Each(func(v int) bool { each = append(each, v); return len(each) <= len(s.ref)+2 })
	if len(each) != n || (n > 0 && fmt.Sprint(each) != fmt.Sprint(s.ref)) {
		return mc.Failf(0, "queue Each=%v want %v", each, s.ref)
	}
	for stop := 1; stop <= n; stop++ {
		k := 0
		s.q.Each(func(int) bool { k++; return k < stop })
		if k != stop {
			return mc.Failf(0, "queue Each did not stop after %d", stop)
		}
	}
	return nil
}

type scfg struct {
	Kind  string `json:"kind"`
	Depth int    `json:"depth"`
	Max   int    `json:"max_len"`
	Merge bool   `json:"merge_states"`
}

func makeSeqBFS(c *scfg) *mc.BFS[sop] {
	return &mc.BFS[sop]{
		Name: "seq-" + c.Kind, Config: c, NRoots: 2, Merge: c.Merge, MaxDepth: c.Depth,
		Root: func(i int) (mc.Inst[sop], *mc.Failure) {
			s := &seqInst{kind: c.Kind, max: c.Max}
			if c.Kind == "stack" {
				if i == 0 {
					s.st = stack.New[int]()
				} else {
					s.st = new(stack.Stack[int])
				}
			} else {
				if i == 0 {
					s.q = mlink.NewQueue[int]()
				} else {
					s.q = new(mlink.Queue[int])
				}
			}
			return s, nil
		},
	}
}

// ---------------------------------------------------------------------------
// ring.Ring: all cycle partitions of N labelled elements

type rop struct {
	K string `json:"k"` // join pop
	A int    `json:"a"`
	B int    `json:"b,omitempty"`
}

func (o rop) String() string { return fmt.Sprintf("%s(%d,%d)", o.K, o.A, o.B) }

type rcfg struct {
	N int `json:"n"`
}

type rinst struct {
	c     *rcfg
	elts  []*ring.Ring[int]
	cyc   [][]int // reference: cycles as lists
	joins *[3]int64
}

func (s *rinst) cycleOf(x int) (int, int) {
	for ci, c := range s.cyc {
		for j, v := range c {
			if v == x {
				return ci, j
			}
		}
	}
	panic("element not found")
}

// from returns the cycle containing x, rotated to start at x.
func (s *rinst) from(x int) []int {
	ci, j := s.cycleOf(x)
	c := s.cyc[ci]
	return append(append([]int{}, c[j:]...), c[:j]...)
}

func (s *rinst) dropCycle(ci int) { s.cyc = append(s.cyc[:ci:ci], s.cyc[ci+1:]...) }

func (s *rinst) Enabled() []rop {
	var ops []rop
	for a := 0; a < s.c.N; a++ {
		for b := 0; b < s.c.N; b++ {
			ops = append(ops, rop{K: "join", A: a, B: b})
		}
		ops = append(ops, rop{K: "pop", A: a})
	}
	return ops
}

func canon(c []int) string {
	m := 0
	for i, v := range c {
		if v < c[m] {
			m = i
		}
	}
	return fmt.Sprint(append(append([]int{}, c[m:]...), c[:m]...))
}

func (s *rinst) Key() string {
	// From the real pointers: follow Next from each element.
	seen := map[int]bool{}
	var parts []string
	for i := range s.elts {
		if seen[i] {
			continue
		}
		var c []int
		for cur := s.elts[i]; !seen[cur.Value]; cur = cur.Next() {
			seen[cur.Value] = true
			c = append(c, cur.Value)
			if len(c) > s.c.N {
				break
			}
		}
		parts = append(parts, canon(c))
	}
	return strings.Join(parts, "")
}

func (s *rinst) Apply(o rop, check bool) *mc.Failure {
	switch o.K {
	case "pop":
		ret := s.elts[o.A].Pop()
		ci, j := s.cycleOf(o.A)
		if len(s.cyc[ci]) > 1 {
			c := s.cyc[ci]
			s.cyc[ci] = append(c[:j:j], c[j+1:]...)
			s.cyc = append(s.cyc, []int{o.A})
		}
		if check && ret != s.elts[o.A] {
			return mc.Failf(0, "Pop did not return its receiver")
		}
	case "join":
		r, t := o.A, o.B
		ret := s.elts[r].Join(s.elts[t])
		R := s.from(r)
		var want *ring.Ring[int]
		rci, _ := s.cycleOf(r)
		tci, _ := s.cycleOf(t)
		kind := 0
		switch {
		case r == t || (len(R) > 1 && R[1] == t):
			// documented no-op, returns nil
		case rci == tci:
			kind = 1
			j := 0
			for i, v := range R {
				if v == t {
					j = i
				}
			}
			// [r1 r2..ri s1..] -> [r1 s1 ...] and [r2..ri]
			out := append([]int{}, R[1:j]...)
			keep := append([]int{R[0]}, R[j:]...)
			s.dropCycle(rci)
			s.cyc = append(s.cyc, keep, out)
			want = s.elts[out[0]]
		default:
			kind = 2
			S := s.from(t)
			merged := append(append([]int{R[0]}, S...), R[1:]...)
			if rci > tci {
				s.dropCycle(rci)
				s.dropCycle(tci)
			} else {
				s.dropCycle(tci)
				s.dropCycle(rci)
			}
			s.cyc = append(s.cyc, merged)
			if len(R) > 1 {
				want = s.elts[R[1]]
			} else {
				want = s.elts[R[0]]
			}
		}
		if check {
			atomic.AddInt64(&s.joins[kind], 1)
			if ret != want {
				return mc.Failf(0, "%v returned %v, want %v", o, label(ret), label(want))
			}
		}
	}
	if !check {
		return nil
	}
	return s.observe()
}

func label(r *ring.Ring[int]) string {
	if r == nil {
		return "nil"
	}
	return fmt.Sprint(r.Value)
}

func (s *rinst) observe() *mc.Failure {
	total := 0
	for _, c := range s.cyc {
		total += len(c)
	}
	if total != s.c.N {
		return mc.Failf(0, "reference lost elements: %v", s.cyc)
	}
	for x := 0; x < s.c.N; x++ {
		c := s.from(x)
		n := len(c)
		e := s.elts[x]
		if e.Value != x {
			return mc.Failf(0, "element %d carries value %d", x, e.Value)
		}
		if e.Next().Prev() != e || e.Prev().Next() != e {
			return mc.Failf(0, "Next and Prev are not inverse at element %d", x)
		}
		if e.Next() != s.elts[c[1%n]] || e.Prev() != s.elts[c[(n-1)%n]] {
			return mc.Failf(0, "element %d: Next=%s Prev=%s, reference cycle %v", x, label(e.Next()), label(e.Prev()), c)
		}
		if e.Len() != n {
			return mc.Failf(0, "Len from element %d = %d, reference cycle %v", x, e.Len(), c)
		}
		if e.IsEmpty() {
			return mc.Failf(0, "non-nil ring reports IsEmpty")
		}
		var each []int
		e.Each(func(v int) bool { each = append(each, v); return len(each) <= s.c.N+1 })
		if fmt.Sprint(each) != fmt.Sprint(c) {
			return mc.Failf(0, "Each from element %d = %v want %v", x, each, c)
		}
		for stop := 1; stop <= n; stop++ {
			if n > 40 && stop > 3 && stop < n-1 {
				continue // long rings: the first and last stops only
			}
			k := 0
			e.Each(func(int) bool { k++; return k < stop })
			if k != stop {
				return mc.Failf(0, "Each from %d did not stop after %d", x, stop)
			}
		}
		for off := -n - 1; off <= n+1; off++ {
			if n > 70 && off > -n+2 && off < n-2 && (off < -2 || off > 2) && off%16 > 1 && off%16 < 15 && -off%16 > 1 {
				continue // long rings: offsets near 0, near +-n and around multiples of 16
			}
			if off == n || off == -n {
				continue // doc and code differ on |n| == len; not asserted (DESIGN.md section 7)
			}
			at := e.At(off)
			pv, pok := e.Peek(off)
			if off > n || off < -n {
				if at != nil || pok || pv != 0 {
					return mc.Failf(0, "At(%d) from %d on a ring of %d is not nil / Peek not (0,false)", off, x, n)
				}
				continue
			}
			w := c[((off%n)+n)%n]
			if at != s.elts[w] || !pok || pv != w {
				return mc.Failf(0, "At(%d) from %d = %s, Peek=(%d,%v), want %d; cycle %v", off, x, label(at), pv, pok, w, c)
			}
		}
	}
	return nil
}

func makeRingBFS(c *rcfg, joins *[3]int64) *mc.BFS[rop] {
	return &mc.BFS[rop]{
		Name: "ring-bfs", Config: c, NRoots: 3, Merge: true,
		Root: func(i int) (mc.Inst[rop], *mc.Failure) {
			s := &rinst{c: c, joins: joins}
			switch i {
			case 0: // one ring built by Of
				vs := make([]int, c.N)
				for k := range vs {
					vs[k] = k
				}
				r := ring.Of(vs...)
				cyc := []int{}
				for k := 0; k < c.N; k++ {
					s.elts = append(s.elts, r)
					cyc = append(cyc, k)
					r = r.Next()
				}
				s.cyc = [][]int{cyc}
			case 1: // N singletons built by New(1)
				for k := 0; k < c.N; k++ {
					e := ring.New[int](1)
					e.Value = k
					s.elts = append(s.elts, e)
					s.cyc = append(s.cyc, []int{k})
				}
			case 2: // New(n) with values assigned afterwards
				r := ring.New[int](c.N)
				cyc := []int{}
				for k := 0; k < c.N; k++ {
					r.Value = k
					s.elts = append(s.elts, r)
					cyc = append(cyc, k)
					r = r.Next()
				}
				s.cyc = [][]int{cyc}
			}
			if f := s.observe(); f != nil {
				return nil, f
			}
			return s, nil
		},
	}
}

// listLong is a fixed pseudo-random walk through the list alphabet with a
// large length bound (mc.LongWalk): growth is favoured, Truncate and Clear are
// rare, so the list stays long and cursors go stale now and then.
type listLong struct {
	MaxLen  int    `json:"max_len"`
	Cursors int    `json:"cursors"`
	Steps   int    `json:"steps"`
	Seed    uint64 `json:"seed"`
	Root    int    `json:"root"`
}

var lcntLong lcounters

var listLongMax int64 // longest list any walk reached (vacuity indicator)

func checkListLong(l listLong) *mc.Failure {
	return mc.GuardTL("list-long", l, 10*time.Minute, func() *mc.Failure {
		inst, f := makeListBFS(&lcfg{MaxLen: l.MaxLen, Cursors: l.Cursors}, &lcntLong).Root(l.Root)
		if f != nil {
			return f
		}
		n := func() int {
			k := len(inst.(*linst).ids)
			for {
				old := atomic.LoadInt64(&listLongMax)
				if int64(k) <= old || atomic.CompareAndSwapInt64(&listLongMax, old, int64(k)) {
					return k
				}
			}
		}
		f, hist := mc.LongWalk[lop](inst, l.Steps, l.Seed, func(o lop) int {
			switch o.K {
			case "push", "add1", "add2":
				return 12 * (n() + 2)
			case "set", "next":
				return 4 * (n() + 2)
			case "remove":
				return 5 * (n() + 2)
			case "truncate":
				return (n() + 2) / 6
			case "clear":
				return (n() + 2) / 20
			case "last", "end":
				return n()/4 + 1
			}
			return 1 // at(n), find(n): one entry per position
		})
		if f != nil {
			if len(f.Msg) > 500 {
				f.Msg = f.Msg[:500] + "..."
			}
			tail := hist[max(len(hist)-6, 0):]
			f.Msg = fmt.Sprintf("walk of %d calls on a list of up to %d elements, call %d; last calls %v: %s", l.Steps, l.MaxLen, f.Step, tail, f.Msg)
		}
		return f
	})
}

// ringLong is a fixed long history on one ring of N elements.
type ringLong struct {
	N    int `json:"n"`
	Root int `json:"root"` // 0: Of(values...), 2: New(n)
}

func ringLongOps(l ringLong) []rop {
	var ops []rop
	x := uint64(l.N)*2654435761 + 5
	next := func() int {
		x = x*6364136223846793005 + 1442695040888963407
		return int((x >> 33) % uint64(l.N))
	}
	for k := 0; k < l.N; k++ {
		a, b := next(), next()
		switch k % 4 {
		case 0:
			ops = append(ops, rop{K: "pop", A: a})
		case 3:
			ops = append(ops, rop{K: "join", A: a, B: (a + 1 + k%5) % l.N}) // short distances: same ring, splice out a few
		default:
			ops = append(ops, rop{K: "join", A: a, B: b})
		}
	}
	return ops
}

func checkRingLong(l ringLong) *mc.Failure {
	return mc.GuardTL("ring-long", l, 20*time.Minute, func() *mc.Failure {
		var joins [3]int64
		inst, f := makeRingBFS(&rcfg{N: l.N}, &joins).Root(l.Root)
		if f != nil {
			f.Msg = fmt.Sprintf("ring of %d elements (root %d) as built: %s", l.N, l.Root, f.Msg)
			return f
		}
		for i, o := range ringLongOps(l) {
			if f := inst.Apply(o, true); f != nil {
				f.Step = i
				if len(f.Msg) > 500 {
					f.Msg = f.Msg[:500] + "..."
				}
				f.Msg = fmt.Sprintf("ring of %d elements (root %d), call %d %v: %s", l.N, l.Root, i, o, f.Msg)
				return f
			}
		}
		return nil
	})
}

func ringEdgeCases() *mc.Failure {
	if ring.New[int](0) != nil || ring.New[int](-1) != nil || ring.Of[int]() != nil {
		return mc.Failf(0, "New(<=0) / Of() is not the nil ring")
	}
	// an empty argument list is empty however it is spelled: nil, empty
	// non-nil, empty with spare capacity
	if ring.Of([]int{}...) != nil || ring.Of(make([]int, 0, 4)...) != nil || ring.Of([]int(nil)...) != nil {
		return mc.Failf(0, "Of(empty slice...) is not the nil ring")
	}
	var z *ring.Ring[int]
	if z.Len() != 0 || !z.IsEmpty() || z.At(0) != nil || z.At(1) != nil || z.Pop() != nil {
		return mc.Failf(0, "nil ring: Len/IsEmpty/At/Pop")
	}
	if v, ok := z.Peek(0); ok || v != 0 {
		return mc.Failf(0, "nil ring Peek(0)=(%d,%v)", v, ok)
	}
	n := 0
	z.Each(func(int) bool { n++; return true })
	if n != 0 {
		return mc.Failf(0, "nil ring Each visited %d", n)
	}
	return nil
}

func main() {
	var lcnt lcounters
	var joins [3]int64
	mc.Main("C10",
		mc.Harness{
			Name: "list-bfs",
			Explore: func(r *mc.Run) {
				c := &lcfg{MaxLen: mc.Pick(r, 5, 6), Cursors: mc.Pick(r, 3, 4)}
				res := makeListBFS(c, &lcnt).Run(r)
				r.Bound("max_len", c.MaxLen)
				r.Bound("cursors", c.Cursors)
				r.Bound("depth_reached", res.Depth)
				r.Count("uses_of_stale_cursors", lcnt.staleUses)
				r.Count("truncate_on_stale_cursor", lcnt.staleTruncate)
				r.Count("set_at_end", lcnt.setAtEnd)
				r.Count("removes", lcnt.removes)
				r.Count("truncates", lcnt.truncates)
				r.AddEval(0, 0, 0, lcnt.staleUses+lcnt.removes+lcnt.truncates)
				r.Rule("list: BFS to closure; cursors obtained by At/Find/Last/End, used by Get/AtEnd/Next/Push/Add/Set/Remove/Truncate, list Clear; state = (length, per cursor: unset / position / stale); non-trivial = removals, truncations and uses of stale cursors")
				r.Assume("a 20 s watchdog turns a hang of an O(n<=5) pointer operation into a violation")
				r.Sample(map[string]any{"ops": []string{"add1[c0]", "add1[c0]", "end[c1]", "last[c0]", "truncate[c0]", "atend[c1] must panic"}})
			},
			Replay: func(c mc.Case) *mc.Failure {
				var cf lcfg
				if err := mc.Unmarshal(c.Config, &cf); err != nil {
					return mc.Failf(-1, "bad config: %v", err)
				}
				var local lcounters
				return makeListBFS(&cf, &local).Replay(c)
			},
		},
		seqHarness("stack"), seqHarness("queue"), seqLongHarness(),
		mc.Harness{
			Name: "list-long", HangLimit: 10 * time.Minute,
			Explore: func(r *mc.Run) {
				var cases []listLong
				for _, n := range mc.Pick(r, []int{17, 33, 65, 130}, []int{17, 33, 65, 130, 300, 1025}) {
					for seed := uint64(1); seed <= 3; seed++ {
						cases = append(cases, listLong{n, 3, 12 * n, seed, int(seed % 2)})
					}
				}
				var calls, maxLen int64
				mc.ParallelFor(len(cases), r.Workers, func(i int) {
					if f := checkListLong(cases[i]); f != nil {
						r.Violation(mc.Case{Harness: "list-long", Trace: mc.J(cases[i]), Msg: f.Msg, Step: f.Step})
					}
					atomic.AddInt64(&calls, int64(cases[i].Steps))
				})
				_ = maxLen
				r.Count("longest_list_reached", atomic.LoadInt64(&listLongMax))
				r.Count("stale_cursor_uses", lcntLong.staleUses)
				n := int64(len(cases))
				r.AddEval(n, calls, calls, n)
				r.Rule("mlink.List with three cursors: fixed pseudo-random walks of 12*N calls through the BFS alphabet (growth favoured, Truncate and Clear rare) with the length bound N = 17...130/1025 and the BFS's oracle after every call")
				r.Sample(listLong{65, 3, 780, 2, 0})
			},
			Replay: func(c mc.Case) *mc.Failure {
				var l listLong
				if err := mc.Unmarshal(c.Trace, &l); err != nil {
					return mc.Failf(-1, "bad trace: %v", err)
				}
				return checkListLong(l)
			},
		},
		mc.Harness{
			Name: "ring-long", HangLimit: 20 * time.Minute,
			Explore: func(r *mc.Run) {
				var cases []ringLong
				for _, n := range mc.Pick(r, []int{8, 15, 16, 17, 18, 31, 32, 33, 34, 63, 64, 65, 129, 257}, []int{8, 15, 16, 17, 18, 31, 32, 33, 34, 63, 64, 65, 100, 127, 128, 129, 257, 513}) {
					cases = append(cases, ringLong{n, 0}, ringLong{n, 2})
				}
				var calls int64
				mc.ParallelFor(len(cases), r.Workers, func(i int) {
					if f := checkRingLong(cases[i]); f != nil {
						r.Violation(mc.Case{Harness: "ring-long", Trace: mc.J(cases[i]), Msg: f.Msg, Step: f.Step})
					}
					atomic.AddInt64(&calls, int64(cases[i].N))
				})
				n := int64(len(cases))
				r.AddEval(n, calls, calls, n)
				r.Rule("rings of 8...65/257 elements built by Of and by New(n): the full observation (Next/Prev inverse, Len, Each, At/Peek at offsets in and out of range from every element) as built and after each of n fixed Join/Pop calls at short and long distances")
				r.Sample(ringLong{33, 2})
			},
			Replay: func(c mc.Case) *mc.Failure {
				var l ringLong
				if err := mc.Unmarshal(c.Trace, &l); err != nil {
					return mc.Failf(-1, "bad trace: %v", err)
				}
				return checkRingLong(l)
			},
		},
		mc.Harness{
			Name: "ring-bfs",
			Explore: func(r *mc.Run) {
				if f := ringEdgeCases(); f != nil {
					r.Violation(mc.Case{Harness: "ring-bfs", Config: mc.J(rcfg{N: 1}), Trace: mc.J(mc.Trace[rop]{Root: 0, Ops: []rop{}}), Msg: f.Msg, Step: -1})
				}
				var sum []map[string]any
				for n := 1; n <= mc.Pick(r, 6, 7); n++ {
					res := makeRingBFS(&rcfg{N: n}, &joins).Run(r)
					sum = append(sum, map[string]any{"n": n, "states": res.States, "transitions": res.Transitions})
				}
				r.Extra("ring_sizes", sum)
				r.Count("join_noop", joins[0])
				r.Count("join_same_ring_splice_out", joins[1])
				r.Count("join_different_rings", joins[2])
				r.AddEval(0, 0, 0, joins[1]+joins[2])
				r.Rule("ring: BFS to closure over Join(r,s) for every ordered pair and Pop(r) for every element on N labelled elements (roots Of, New(1) singletons, New(n)); states = cycle partitions read from the real pointers; non-trivial = joins that splice")
			},
			Replay: func(c mc.Case) *mc.Failure {
				if c.Step == -1 {
					if f := ringEdgeCases(); f != nil {
						return f
					}
				}
				var cf rcfg
				if err := mc.Unmarshal(c.Config, &cf); err != nil {
					return mc.Failf(-1, "bad config: %v", err)
				}
				var local [3]int64
				return makeRingBFS(&cf, &local).Replay(c)
			},
		},
	)
}

// seqLong is a fixed pseudo-random walk on a stack or an mlink.Queue with a
// large length bound.
type seqLong struct {
	Kind  string `json:"kind"`
	Max   int    `json:"max_len"`
	Steps int    `json:"steps"`
	Seed  uint64 `json:"seed"`
	Root  int    `json:"root"`
}

func checkSeqLong(l seqLong) *mc.Failure {
	return mc.GuardTL("seq-long", l, 10*time.Minute, func() *mc.Failure {
		inst, f := makeSeqBFS(&scfg{Kind: l.Kind, Max: l.Max}).Root(l.Root)
		if f != nil {
			return f
		}
		f, hist := mc.LongWalk[sop](inst, l.Steps, l.Seed, func(o sop) int {
			switch o.K {
			case "clear":
				return 1
			case "pop":
				return 60
			}
			return 100 // push, add
		})
		if f != nil {
			if len(f.Msg) > 400 {
				f.Msg = f.Msg[:400] + "..."
			}
			f.Msg = fmt.Sprintf("%s: walk of %d calls, length bound %d, call %d; last calls %v: %s", l.Kind, l.Steps, l.Max, f.Step, hist[max(len(hist)-6, 0):], f.Msg)
		}
		return f
	})
}

func seqLongHarness() mc.Harness {
	return mc.Harness{
		Name: "seq-long", HangLimit: 10 * time.Minute,
		Explore: func(r *mc.Run) {
			var cases []seqLong
			for _, kind := range []string{"stack", "queue"} {
				for _, n := range mc.Pick(r, []int{17, 33, 65, 130, 300}, []int{17, 33, 65, 130, 300, 1025, 5000}) {
					for seed := uint64(1); seed <= 2; seed++ {
						cases = append(cases, seqLong{kind, n, 8 * n, seed, int(seed % 2)})
					}
				}
			}
			var calls int64
			mc.ParallelFor(len(cases), r.Workers, func(i int) {
				if f := checkSeqLong(cases[i]); f != nil {
					r.Violation(mc.Case{Harness: "seq-long", Trace: mc.J(cases[i]), Msg: f.Msg, Step: f.Step})
				}
				atomic.AddInt64(&calls, int64(cases[i].Steps))
			})
			n := int64(len(cases))
			r.AddEval(n, calls, calls, n)
			r.Rule("stack.Stack and mlink.Queue: fixed pseudo-random walks of 8*N calls (Push/Add favoured over Pop, Clear rare) with the length bound N = 17...300/5000 and the oracle of the history enumeration after every call")
			r.Sample(seqLong{"queue", 65, 520, 1, 1})
		},
		Replay: func(c mc.Case) *mc.Failure {
			var l seqLong
			if err := mc.Unmarshal(c.Trace, &l); err != nil {
				return mc.Failf(-1, "bad trace: %v", err)
			}
			return checkSeqLong(l)
		},
	}
}

func seqHarness(kind string) mc.Harness {
	return mc.Harness{
		Name: "seq-" + kind,
		Explore: func(r *mc.Run) {
			c := &scfg{Kind: kind, Depth: mc.Pick(r, 8, 10), Max: 6}
			if kind == "queue" {
				c.Depth = mc.Pick(r, 10, 12)
			}
			if kind == "stack" && r.Hooks {
				// The stack's state is (length, capacity of the backing slice):
				// merge on it and search to closure up to a larger length, so that
				// behaviour that depends on capacity (growth, shrinking) is reached.
				c.Merge, c.Depth, c.Max = true, 0, mc.Pick(r, 70, 300)
			}
			makeSeqBFS(c).Run(r)
			r.Bound("depth", c.Depth)
			r.Bound("max_len", c.Max)
			if c.Merge {
				r.Rule("stack: BFS to closure over Push/Add/Pop/Clear up to the length bound, states merged by (length, capacity)")
			} else {
				r.Rule(kind + ": every history up to the depth bound from the zero value and from the constructor (no state merging)")
			}
		},
		Replay: func(c mc.Case) *mc.Failure {
			var cf scfg
			if err := mc.Unmarshal(c.Config, &cf); err != nil {
				return mc.Failf(-1, "bad config: %v", err)
			}
			return makeSeqBFS(&cf).Replay(c)
		},
	}
}
