// C04: omap.Map is an ordered map: lookups, updates and iterators match a
// reference. E1: BFS over real maps (state = hidden tree shape with values).
package main

import (
	"cmp"
	"fmt"
	"math"
	"sort"
	"strings"
	"sync/atomic"
	"time"

	"verif/mc"

	"github.com/creachadair/mds/omap"
)

type op struct {
	K string `json:"k"` // set delete clear
	A int    `json:"a,omitempty"`
	V int    `json:"v,omitempty"`
}

func (o op) String() string { return fmt.Sprintf("%s(%d,%d)", o.K, o.A, o.V) }

type cfg struct {
	Keys int    `json:"keys"`
	Vals int    `json:"values"`
	Cmp  string `json:"cmp"` // natural (omap.New), scaled (NewFunc 3*(a-b)), reversed (NewFunc 3*(b-a))
	// Light: the delete-while-iterating loop only for the predicates "all",
	// "even keys", "odd keys" and each single key instead of every subset.
	Light bool `json:"light,omitempty"`
}

type kv struct{ k, v int }

type counters struct{ seeks, reseeks, deleteLoops, walks, multi int64 }

type inst struct {
	c             *cfg
	m             omap.Map[int, int]
	ref           map[int]int
	hist          []op
	cnt           *counters
	emptied, used bool
}

func newMap(c *cfg) omap.Map[int, int] {
	switch c.Cmp {
	case "natural":
		return omap.New[int, int]()
	case "scaled":
		return omap.NewFunc[int, int](func(a, b int) int { return 3 * (a - b) })
	default:
		return omap.NewFunc[int, int](func(a, b int) int { return 3 * (b - a) })
	}
}

// sorted returns the reference entries in comparator order.
func (s *inst) sorted() []kv {
	out := make([]kv, 0, len(s.ref))
	for k, v := range s.ref {
		out = append(out, kv{k, v})
	}
	rev := s.c.Cmp == "reversed"
	sort.Slice(out, func(i, j int) bool {
		if rev {
			return out[i].k > out[j].k
		}
		return out[i].k < out[j].k
	})
	return out
}

// seekIndex is the index of the first entry >= x in comparator order.
func (s *inst) seekIndex(es []kv, x int) int {
	for i, e := range es {
		if s.c.Cmp == "reversed" && e.k <= x || s.c.Cmp != "reversed" && e.k >= x {
			return i
		}
	}
	return len(es)
}

func (s *inst) Enabled() []op {
	var ops []op
	for k := 0; k < s.c.Keys; k++ {
		for v := 0; v < s.c.Vals; v++ {
			ops = append(ops, op{K: "set", A: k, V: v + 1})
		}
		ops = append(ops, op{K: "delete", A: k})
	}
	return append(ops, op{K: "clear"})
}

func (s *inst) Key() string {
	return fmt.Sprintf("%s E%v %s", hiddenKey(s.m), s.emptied, mc.Fingerprint(&s.m))
}

func apply(m omap.Map[int, int], o op) bool {
	switch o.K {
	case "set":
		return m.Set(o.A, o.V)
	case "delete":
		return m.Delete(o.A)
	case "clear":
		m.Clear()
	}
	return false
}

func (s *inst) Apply(o op, check bool) *mc.Failure {
	cp := s.m // copies of a Map share contents: mutate through the copy
	// iterators obtained before the edit: the documented way to go on after an
	// edit is to Seek them again
	var oldFirst, oldLast, oldSeek *omap.Iter[int, int]
	if check {
		oldFirst, oldLast, oldSeek = s.m.First(), s.m.Last(), s.m.Seek(1)
	}
	got := apply(cp, o)
	_, present := s.ref[o.A]
	want := false
	switch o.K {
	case "set":
		want = !present
		s.ref[o.A] = o.V
	case "delete":
		want = present
		delete(s.ref, o.A)
	case "clear":
		s.ref = map[int]int{}
	}
	s.hist = append(s.hist, o)
	if len(s.ref) > 0 {
		s.used = true
	} else if s.used {
		s.emptied = true
	}
	if !check {
		return nil
	}
	if o.K != "clear" && got != want {
		return mc.Failf(0, "%v returned %v, want %v", o, got, want)
	}
	if len(s.ref) >= 2 {
		atomic.AddInt64(&s.cnt.multi, 1)
	}
	if f := s.observe(s.m); f != nil {
		return f
	}
	if f := s.iteratorsAcross(oldFirst, oldLast, oldSeek, o); f != nil {
		return f
	}
	return s.deleteLoops()
}

// iteratorsAcross re-anchors iterators that were obtained before the edit,
// and checks that two iterators alive at the same time do not disturb each other.
func (s *inst) iteratorsAcross(oldFirst, oldLast, oldSeek *omap.Iter[int, int], o op) *mc.Failure {
	es := s.sorted()
	n := len(es)
	for x := -1; x <= s.c.Keys; x++ {
		i := s.seekIndex(es, x)
		for name, it := range map[string]*omap.Iter[int, int]{"First": oldFirst, "Last": oldLast, "Seek(1)": oldSeek} {
			if it == nil {
				continue
			}
			it.Seek(x)
			if it.IsValid() != (i < n) || (i < n && (it.Key() != es[i].k || it.Value() != es[i].v)) {
				return mc.Failf(0, "an iterator from %s() taken before %v and re-anchored with Seek(%d) afterwards: valid=%v key=%d, want index %d of %v", name, o, x, it.IsValid(), it.Key(), i, es)
			}
		}
	}
	// two live iterators: the first is used after the second was created
	for x := -1; x <= s.c.Keys; x++ {
		for y := -1; y <= s.c.Keys; y++ {
			a := s.m.Seek(x)
			b := s.m.Seek(y)
			i, j := s.seekIndex(es, x), s.seekIndex(es, y)
			if a.IsValid() != (i < n) || (i < n && a.Key() != es[i].k) {
				return mc.Failf(0, "Seek(%d) is at key %d (valid=%v) after a second iterator was created with Seek(%d); want index %d of %v", x, a.Key(), a.IsValid(), y, i, es)
			}
			if got, ok := walk(a, true, 2*n+4); !ok || !eqKV(got, es[i:]) {
				return mc.Failf(0, "the walk from Seek(%d) gives %v after a second iterator was created with Seek(%d); want %v", x, got, y, es[i:])
			}
			if b.IsValid() != (j < n) || (j < n && b.Key() != es[j].k) {
				return mc.Failf(0, "Seek(%d) is at key %d (valid=%v) after another iterator was walked to its end; want index %d of %v", y, b.Key(), b.IsValid(), j, es)
			}
		}
	}
	return nil
}

// walk collects entries by repeatedly calling step until the iterator is invalid.
func walk(it *omap.Iter[int, int], next bool, limit int) ([]kv, bool) {
	var out []kv
	for it.IsValid() {
		out = append(out, kv{it.Key(), it.Value()})
		if len(out) > limit {
			return out, false
		}
		if next {
			it.Next()
		} else {
			it.Prev()
		}
	}
	return out, true
}

func eqKV(a, b []kv) bool {
	if len(a) != len(b) {
		return false
	}
	for i := range a {
		if a[i] != b[i] {
			return false
		}
	}
	return true
}

func reversed(es []kv) []kv {
	out := make([]kv, len(es))
	for i, e := range es {
		out[len(es)-1-i] = e
	}
	return out
}

func (s *inst) observe(m omap.Map[int, int]) *mc.Failure {
	es := s.sorted()
	n := len(es)
	if m.Len() != n {
		return mc.Failf(0, "Len=%d want %d", m.Len(), n)
	}
	for k := -1; k <= s.c.Keys; k++ {
		wv, wok := s.ref[k]
		v, ok := m.GetOK(k)
		if ok != wok || v != wv {
			return mc.Failf(0, "GetOK(%d)=(%d,%v) want (%d,%v)", k, v, ok, wv, wok)
		}
		if g := m.Get(k); g != wv {
			return mc.Failf(0, "Get(%d)=%d want %d", k, g, wv)
		}
	}
	keys := m.Keys()
	if n == 0 && keys != nil {
		return mc.Failf(0, "Keys of an empty map = %v, want nil", keys)
	}
	if len(keys) != n {
		return mc.Failf(0, "Keys=%v want %d keys", keys, n)
	}
	var parts []string
	for i, e := range es {
		if keys[i] != e.k {
			return mc.Failf(0, "Keys=%v want order %v", keys, es)
		}
		parts = append(parts, fmt.Sprintf("%d:%d", e.k, e.v))
	}
	if w := "omap[" + strings.Join(parts, " ") + "]"; m.String() != w {
		return mc.Failf(0, "String=%q want %q", m.String(), w)
	}
	lim := n + 3
	if got, ok := walk(m.First(), true, lim); !ok || !eqKV(got, es) {
		return mc.Failf(0, "First+Next walk = %v want %v", got, es)
	}
	if got, ok := walk(m.Last(), false, lim); !ok || !eqKV(got, reversed(es)) {
		return mc.Failf(0, "Last+Prev walk = %v want %v", got, reversed(es))
	}
	atomic.AddInt64(&s.cnt.walks, 2)
	// An iterator that ran off either end stays invalid and yields zero values.
	for _, it := range []*omap.Iter[int, int]{m.First().Prev(), m.Last().Next()} {
		if it.IsValid() || it.Key() != 0 || it.Value() != 0 {
			return mc.Failf(0, "iterator moved past the end is valid=%v key=%d", it.IsValid(), it.Key())
		}
		it.Next()
		it.Prev()
		if it.IsValid() {
			return mc.Failf(0, "iterator past the end became valid again by Next/Prev")
		}
	}
	for x := -1; x <= s.c.Keys; x++ {
		i := s.seekIndex(es, x)
		it := m.Seek(x)
		if it.IsValid() != (i < n) || (i < n && (it.Key() != es[i].k || it.Value() != es[i].v)) {
			return mc.Failf(0, "Seek(%d) at key=%d valid=%v, want index %d of %v", x, it.Key(), it.IsValid(), i, es)
		}
		if got, ok := walk(it, true, lim); !ok || !eqKV(got, es[i:]) {
			return mc.Failf(0, "Seek(%d)+Next walk = %v want %v", x, got, es[i:])
		}
		var wantBack []kv
		if i < n {
			wantBack = reversed(es[:i+1])
		}
		if got, ok := walk(m.Seek(x), false, lim); !ok || !eqKV(got, wantBack) {
			return mc.Failf(0, "Seek(%d)+Prev walk = %v want %v", x, got, wantBack)
		}
		atomic.AddInt64(&s.cnt.seeks, 2)
		// Re-anchoring an existing iterator from every position (incl. invalid).
		for j := 0; j <= n; j++ {
			it := m.First()
			for q := 0; q < j; q++ {
				it.Next()
			}
			ret := it.Seek(x)
			if ret != it {
				return mc.Failf(0, "Iter.Seek did not return its receiver")
			}
			if it.IsValid() != (i < n) || (i < n && it.Key() != es[i].k) {
				return mc.Failf(0, "iterator at position %d re-Seek(%d): key=%d valid=%v want index %d of %v", j, x, it.Key(), it.IsValid(), i, es)
			}
			if i < n {
				it.Next()
				if it.IsValid() != (i+1 < n) || (i+1 < n && it.Key() != es[i+1].k) {
					return mc.Failf(0, "iterator re-Seek(%d) then Next: key=%d valid=%v", x, it.Key(), it.IsValid())
				}
			}
			atomic.AddInt64(&s.cnt.reseeks, 1)
		}
	}
	return nil
}

// deleteLoops runs the documented delete-while-iterating loop on a twin map
// (rebuilt from the history) for every subset of keys as deletion predicate.
func (s *inst) deleteLoops() *mc.Failure {
	es := s.sorted()
	if len(es) == 0 {
		return nil
	}
	for mask := 1; mask < 1<<s.c.Keys; mask++ {
		if s.c.Light && mask != 1<<s.c.Keys-1 && mask != 0x5555&(1<<s.c.Keys-1) && mask != 0xaaaa&(1<<s.c.Keys-1) && mask&(mask-1) != 0 {
			continue
		}
		hits := false
		for _, e := range es {
			if mask&(1<<e.k) != 0 {
				hits = true
			}
		}
		if !hits {
			continue
		}
		twin := newMap(s.c)
		for _, o := range s.hist {
			apply(twin, o)
		}
		var visited []int
		steps := 0
		for it := twin.First(); it.IsValid(); {
			steps++
			if steps > 4*len(es)+4 {
				return mc.Failf(0, "delete-while-iterating loop (mask %b) does not terminate on %v", mask, es)
			}
			key := it.Key()
			visited = append(visited, key)
			if mask&(1<<key) != 0 {
				twin.Delete(key)
				it.Seek(key)
			} else {
				it.Next()
			}
		}
		var wantLeft []kv
		for _, e := range es {
			if mask&(1<<e.k) == 0 {
				wantLeft = append(wantLeft, e)
			}
		}
		if len(visited) != len(es) {
			return mc.Failf(0, "delete loop (mask %b) visited %v, want every key of %v once", mask, visited, es)
		}
		for i, e := range es {
			if visited[i] != e.k {
				return mc.Failf(0, "delete loop (mask %b) visited %v, want order of %v", mask, visited, es)
			}
		}
		got, _ := walk(twin.First(), true, len(es)+3)
		if !eqKV(got, wantLeft) || twin.Len() != len(wantLeft) {
			return mc.Failf(0, "delete loop (mask %b) left %v (Len %d), want %v", mask, got, twin.Len(), wantLeft)
		}
		atomic.AddInt64(&s.cnt.deleteLoops, 1)
	}
	return nil
}

func makeBFS(c *cfg, cnt *counters, hooks bool, depth int) *mc.BFS[op] {
	return &mc.BFS[op]{
		Name: "omap-bfs", Config: c, NRoots: 1, Merge: hooks, MaxDepth: depth,
		Root: func(int) (mc.Inst[op], *mc.Failure) {
			s := &inst{c: c, m: newMap(c), ref: map[int]int{}, cnt: cnt}
			if f := s.observe(s.m); f != nil {
				return nil, f
			}
			return s, nil
		},
	}
}

type longTrace struct {
	Cmp   string `json:"cmp"`
	Order string `json:"order"`
	N     int    `json:"n"`
}

func checkLong(tr longTrace) *mc.Failure {
	return mc.GuardTL("omap-long", tr, 10*time.Minute, func() *mc.Failure {
		c := &cfg{Keys: tr.N, Vals: 1, Cmp: tr.Cmp}
		var cnt counters
		s := &inst{c: c, m: newMap(c), ref: map[int]int{}, cnt: &cnt}
		keys := make([]int, tr.N)
		for i := range keys {
			switch tr.Order {
			case "asc":
				keys[i] = i
			case "desc":
				keys[i] = tr.N - 1 - i
			default:
				if i%2 == 0 {
					keys[i] = i / 2
				} else {
					keys[i] = tr.N - 1 - i/2
				}
			}
		}
		step := 0
		do := func(o op) *mc.Failure {
			step++
			got := apply(s.m, o)
			_, present := s.ref[o.A]
			want := o.K == "set" && !present || o.K == "delete" && present
			if o.K == "set" {
				s.ref[o.A] = o.V
			} else {
				delete(s.ref, o.A)
			}
			if got != want {
				return mc.Failf(step, "%v returned %v, want %v", o, got, want)
			}
			return nil
		}
		checkpoint := func(what string) *mc.Failure {
			if f := s.observe(s.m); f != nil {
				f.Step = step
				f.Msg = what + ": " + f.Msg
				return f
			}
			return nil
		}
		for i, k := range keys {
			if f := do(op{K: "set", A: k, V: i%3 + 1}); f != nil {
				return f
			}
		}
		if f := checkpoint("after filling"); f != nil {
			return f
		}
		for _, k := range keys {
			if k%2 == 1 {
				if f := do(op{K: "delete", A: k}); f != nil {
					return f
				}
			}
		}
		if f := checkpoint("after deleting every second key"); f != nil {
			return f
		}
		for _, k := range keys {
			if k%2 == 0 && k >= 10 {
				if f := do(op{K: "delete", A: k}); f != nil {
					return f
				}
			}
		}
		if f := checkpoint("after thinning out to five keys"); f != nil {
			return f
		}
		for i := len(keys) - 1; i >= 0; i-- {
			if f := do(op{K: "set", A: keys[i], V: 7}); f != nil {
				return f
			}
		}
		return checkpoint("after refilling")
	})
}

// zeroMap checks the zero Map: an empty read-only map.
func zeroMap() *mc.Failure {
	var z omap.Map[int, int]
	s := &inst{c: &cfg{Keys: 3, Vals: 1, Cmp: "natural"}, ref: map[int]int{}, cnt: &counters{}}
	if f := s.observe(z); f != nil {
		f.Msg = "zero Map: " + f.Msg
		return f
	}
	if z.Delete(1) {
		return mc.Failf(0, "zero Map: Delete reported true")
	}
	z.Clear()
	if z.String() != "omap[]" || z.Len() != 0 {
		return mc.Failf(0, "zero Map after Clear: %s", z.String())
	}
	panicked := func() (p bool) {
		defer func() { p = recover() != nil }()
		z.Set(1, 1)
		return
	}()
	if !panicked {
		return mc.Failf(0, "zero Map: Set did not panic although the documentation says it will")
	}
	return nil
}

// floatKeys are the keys of the float-keyed histories: omap.New promises the
// natural order of an ordered key type, which for floats is cmp.Compare's
// (NaN equal to itself and below everything, -0 equal to +0).
var floatKeys = []float64{math.NaN(), math.Inf(-1), -1, 0, 1, math.Inf(1)}

// floatHistory runs one history on omap.New[float64,int]: op i < 6 is
// Set(floatKeys[i], step), op i >= 6 is Delete(floatKeys[i-6]). The reference
// is a slice kept sorted by cmp.Compare.
func floatHistory(ops []int) *mc.Failure {
	type kv struct {
		k float64
		v int
	}
	var ref []kv
	find := func(k float64) (int, bool) {
		return sort.Find(len(ref), func(i int) int { return cmp.Compare(k, ref[i].k) })
	}
	m := omap.New[float64, int]()
	for step, op := range ops {
		k := floatKeys[op%6]
		i, ok := find(k)
		if op < 6 {
			if got := m.Set(k, step+1); got != !ok {
				return mc.Failf(step, "Set(%v)=%v want %v", k, got, !ok)
			}
			if ok {
				ref[i].v = step + 1
			} else {
				ref = append(ref[:i], append([]kv{{k, step + 1}}, ref[i:]...)...)
			}
		} else {
			if got := m.Delete(k); got != ok {
				return mc.Failf(step, "Delete(%v)=%v want %v", k, got, ok)
			}
			if ok {
				ref = append(ref[:i], ref[i+1:]...)
			}
		}
		if m.Len() != len(ref) {
			return mc.Failf(step, "Len=%d want %d after %v", m.Len(), len(ref), ops[:step+1])
		}
		for _, q := range floatKeys {
			j, has := find(q)
			v, ok := m.GetOK(q)
			if ok != has || (has && v != ref[j].v) {
				return mc.Failf(step, "GetOK(%v)=(%d,%v) want present=%v", q, v, ok, has)
			}
			// Seek(q): first key >= q
			it := m.Seek(q)
			if it.IsValid() != (j < len(ref)) || (j < len(ref) && cmp.Compare(it.Key(), ref[j].k) != 0) {
				return mc.Failf(step, "Seek(%v) valid=%v want index %d of %d", q, it.IsValid(), j, len(ref))
			}
		}
		n := 0
		for it := m.First(); it.IsValid(); it.Next() {
			if n >= len(ref) || cmp.Compare(it.Key(), ref[n].k) != 0 || it.Value() != ref[n].v {
				return mc.Failf(step, "First walk entry %d = (%v,%d), reference %v", n, it.Key(), it.Value(), ref)
			}
			n++
		}
		if n != len(ref) {
			return mc.Failf(step, "First walk visited %d of %d", n, len(ref))
		}
		n = len(ref)
		for it := m.Last(); it.IsValid(); it.Prev() {
			n--
			if n < 0 || cmp.Compare(it.Key(), ref[n].k) != 0 {
				return mc.Failf(step, "Last walk at %d = %v, reference %v", n, it.Key(), ref)
			}
		}
		if n != 0 {
			return mc.Failf(step, "Last walk stopped %d short", n)
		}
	}
	return nil
}

func main() {
	var cnt counters
	mc.Main("C04",
		mc.Harness{
			Name: "omap-bfs",
			Explore: func(r *mc.Run) {
				var sum []map[string]any
				for _, cm := range []string{"natural", "scaled", "reversed"} {
					c := &cfg{Keys: mc.Pick(r, 5, 6), Vals: 2, Cmp: cm}
					depth := 0
					if !r.Hooks {
						depth = mc.Pick(r, 4, 5)
						c.Keys = 4
					}
					res := makeBFS(c, &cnt, r.Hooks, depth).Run(r)
					sum = append(sum, map[string]any{"cmp": cm, "keys": c.Keys, "states": res.States, "transitions": res.Transitions, "depth": res.Depth, "exhaustive": res.Exhaustive})
				}
				if r.Hooks {
					// every history to a small depth without merging (hidden state no key shows)
					d := mc.Pick(r, 5, 6)
					flat := &cfg{Keys: 3, Vals: 2, Cmp: "natural", Light: true}
					res := makeBFS(flat, &cnt, false, d).Run(r)
					sum = append(sum, map[string]any{"cmp": "natural", "keys": 3, "unmerged_depth": d, "histories": res.States, "exhaustive": res.Exhaustive})
				}
				if r.Hooks {
					// more keys, one value: an entry can sit deeper than the depth limit of the
					// shrunken map only from 7 keys on (limit(7)=4, limit(6)=3 at omap's balance)
					c := &cfg{Keys: mc.Pick(r, 7, 8), Vals: 1, Cmp: "natural", Light: true}
					res := makeBFS(c, &cnt, true, 0).Run(r)
					sum = append(sum, map[string]any{"cmp": c.Cmp, "keys": c.Keys, "values": 1, "light": true, "states": res.States, "transitions": res.Transitions, "depth": res.Depth, "exhaustive": res.Exhaustive})
				}
				r.Extra("configurations", sum)
				r.Count("seek_walks", cnt.seeks)
				r.Count("iterator_reseeks", cnt.reseeks)
				r.Count("delete_while_iterating_loops", cnt.deleteLoops)
				r.Count("full_walks", cnt.walks)
				r.AddEval(0, 0, 0, cnt.multi)
				r.Rule("BFS to closure over Set/Delete/Clear for three comparators (omap.New, NewFunc 3*(a-b), NewFunc reversed); states merged by hidden tree shape with values + max; per state every Get/GetOK/Keys/String, First/Last walks, Seek(x)+Next and +Prev walks for every x in -1..K, re-Seek of an iterator from every position, and the documented delete-while-iterating loop for every key subset on a rebuilt twin; non-trivial = transitions into a state with at least two entries")
				r.Sample(map[string]any{"cmp": "reversed", "ops": []string{"set(2,1)", "set(0,2)", "set(4,1)", "delete(2)", "seek(3) -> 0"}})
			},
			Replay: func(c mc.Case) *mc.Failure {
				var cf cfg
				if err := mc.Unmarshal(c.Config, &cf); err != nil {
					return mc.Failf(-1, "bad config: %v", err)
				}
				var local counters
				return makeBFS(&cf, &local, mc.HooksEnabled, 0).Replay(c)
			},
		},
		mc.Harness{
			Name: "omap-long", HangLimit: 10 * time.Minute,
			Explore: func(r *mc.Run) {
				// Larger maps (several tree levels, rebuilds of the underlying tree):
				// fixed fill / thin-out / refill histories, full observation at
				// checkpoints.
				var n int64
				for _, cm := range []string{"natural", "scaled", "reversed"} {
					for _, order := range []string{"asc", "desc", "zigzag"} {
						tr := longTrace{Cmp: cm, Order: order, N: mc.Pick(r, 300, 700)}
						if f := checkLong(tr); f != nil {
							r.Violation(mc.Case{Harness: "omap-long", Trace: mc.J(tr), Msg: f.Msg, Step: f.Step})
						}
						n++
					}
				}
				r.AddEval(n, n, n, n)
				r.Rule("maps of 40/120 keys filled in three orders under three comparators, thinned out (every second key, then all but five) and refilled; every observer incl. all Seek targets and re-seeks at each checkpoint")
				r.Sample(longTrace{Cmp: "reversed", Order: "zigzag", N: 40})
			},
			Replay: func(c mc.Case) *mc.Failure {
				var tr longTrace
				if err := mc.Unmarshal(c.Trace, &tr); err != nil {
					return mc.Failf(-1, "bad trace: %v", err)
				}
				return checkLong(tr)
			},
		},
		mc.Harness{
			Name: "omap-float",
			Explore: func(r *mc.Run) {
				depth := mc.Pick(r, 4, 5)
				total := 1
				for i := 0; i < depth; i++ {
					total *= 12
				}
				var evals, nontriv int64
				mc.ParallelFor(total, r.Workers, func(i int) {
					ops := make([]int, depth)
					nan := false
					for j, x := 0, i; j < depth; j, x = j+1, x/12 {
						ops[j] = x % 12
						nan = nan || ops[j]%6 == 0
					}
					if f := mc.Guard(func() *mc.Failure { return floatHistory(ops) }); f != nil {
						r.Violation(mc.Case{Harness: "omap-float", Trace: mc.J(ops), Msg: f.Msg})
					}
					atomic.AddInt64(&evals, 1)
					if nan {
						atomic.AddInt64(&nontriv, 1)
					}
				})
				r.AddEval(evals, evals*int64(depth), evals, nontriv)
				r.Rule(fmt.Sprintf("omap.New[float64,int]: every history of %d Set/Delete steps over the keys NaN, -Inf, -1, 0, 1, +Inf; after every step Len, GetOK and Seek of every key, First/Next and Last/Prev walks against a slice sorted by cmp.Compare; non-trivial = histories that touch the NaN key", depth))
				r.Sample([]int{0, 3, 6})
			},
			Replay: func(c mc.Case) *mc.Failure {
				var ops []int
				if err := mc.Unmarshal(c.Trace, &ops); err != nil {
					return mc.Failf(-1, "bad trace: %v", err)
				}
				return mc.Guard(func() *mc.Failure { return floatHistory(ops) })
			},
		},
		mc.Harness{
			Name: "omap-zero",
			Explore: func(r *mc.Run) {
				if f := zeroMap(); f != nil {
					r.Violation(mc.Case{Harness: "omap-zero", Trace: mc.J("zero"), Msg: f.Msg})
				}
				r.AddEval(1, 1, 1, 0)
			},
			Replay: func(mc.Case) *mc.Failure { return zeroMap() },
		},
	)
}
