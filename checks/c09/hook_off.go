//go:build !verif

package main

import (
	"verif/mc"

	"github.com/creachadair/mds/cache"
)

func install(s *mc.Sched) {}

const controlled = false

func wrapStore(c cache.Config[int, int], wrap func(cache.Store[int, int]) cache.Store[int, int]) cache.Config[int, int] {
	return c
}
