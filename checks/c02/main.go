// C02: stree.Tree stays height-balanced within the scapegoat bound. Same
// state spaces as C01 with the exact integer depth oracle (and P in the state
// key). See lib/streeh.
package main

import (
	"verif/lib/streeh"
	"verif/mc"
)

func main() {
	mode := streeh.Mode{Depth: true}
	mc.Main("C02", streeh.BFSHarness(mode), streeh.NewHarness(mode), streeh.LongHarness(mode))
}
