//go:build verif && !verifrace

package main

import (
	"verif/mc"

	"github.com/creachadair/mds/cache"
	"github.com/creachadair/mds/zzverif/vsync"
)

func init() { mc.HooksEnabled = true }

type adapter struct{ s *mc.Sched }

func (a adapter) Lock(m any)         { a.s.Lock(m) }
func (a adapter) Unlock(m any)       { a.s.Unlock(m) }
func (a adapter) RLock(m any)        { a.s.RLock(m) }
func (a adapter) RUnlock(m any)      { a.s.RUnlock(m) }
func (a adapter) TryLock(m any) bool { return a.s.TryLock(m) }

// install routes the synchronisation operations of cache.go to s (nil: off).
func install(s *mc.Sched) {
	if s == nil {
		vsync.Current = nil
		return
	}
	vsync.Current = adapter{s}
}

const controlled = true

func wrapStore(c cache.Config[int, int], wrap func(cache.Store[int, int]) cache.Store[int, int]) cache.Config[int, int] {
	return cache.VerifWrapStore(c, wrap)
}
