//go:build verif

package main

import (
	"verif/mc"

	"github.com/creachadair/mds/stack"
)

func init() { mc.HooksEnabled = true }

func stackCap(s *stack.Stack[int]) int { return stack.VerifCap(s) }
