// C11: slice.EditScript is a valid, minimal, canonical edit script.
// E4: every pair of sequences over small alphabets up to a length bound.
package main

import (
	"fmt"
	"math"
	"strings"
	"sync/atomic"
	"time"

	"verif/mc"

	"github.com/creachadair/mds/slice"
)

type trace struct {
	L []int `json:"lhs"`
	R []int `json:"rhs"`
}

// lcsInfo returns the LCS length and whether more than one optimal alignment
// exists (number of distinct optimal index-pair sets > 1, capped).
func lcsInfo(a, b []int) (int, bool) {
	m, n := len(a), len(b)
	L := make([][]int, m+1)
	C := make([][]int, m+1) // number of optimal alignments, capped at 2
	for i := range L {
		L[i] = make([]int, n+1)
		C[i] = make([]int, n+1)
	}
	for i := 0; i <= m; i++ {
		for j := 0; j <= n; j++ {
			if i == 0 || j == 0 {
				C[i][j] = 1
				continue
			}
			best := L[i-1][j]
			if L[i][j-1] > best {
				best = L[i][j-1]
			}
			if a[i-1] == b[j-1] && L[i-1][j-1]+1 > best {
				best = L[i-1][j-1] + 1
			}
			L[i][j] = best
			c := 0
			if a[i-1] == b[j-1] && L[i-1][j-1]+1 == best {
				c += C[i-1][j-1]
			}
			if L[i-1][j] == best {
				c += C[i-1][j]
			}
			if L[i][j-1] == best {
				c += C[i][j-1]
			}
			if L[i-1][j] == best && L[i][j-1] == best && L[i-1][j-1] == best {
				c -= C[i-1][j-1]
			}
			if c > 2 {
				c = 2
			}
			C[i][j] = c
		}
	}
	return L[m][n], C[m][n] > 1
}

func same(span, whole []int, off int) bool {
	if len(span) == 0 {
		return true
	}
	if off+len(span) > len(whole) {
		return false
	}
	return &span[0] == &whole[off]
}

func check(t trace) *mc.Failure {
	lhs := append([]int(nil), t.L...)
	rhs := append([]int(nil), t.R...)
	return checkSlices(t, lhs, rhs)
}

// aliased is a case where lhs and rhs are views of one backing array.
type aliased struct {
	S              []int `json:"backing"`
	A0, A1, B0, B1 int
}

func checkAliased(a aliased) *mc.Failure {
	s := append([]int(nil), a.S...)
	return checkSlices(trace{a.S[a.A0:a.A1], a.S[a.B0:a.B1]}, s[a.A0:a.A1], s[a.B0:a.B1])
}

func checkSlices(t trace, lhs, rhs []int) *mc.Failure {
	f := mc.GuardT("editscript", t, func() *mc.Failure { return checkSlices1(t, lhs, rhs) })
	if f != nil && len(f.Msg) > 6 && f.Msg[:6] == "panic:" {
		f.Msg = fmt.Sprintf("EditScript(%v,%v): %s", lhs, rhs, f.Msg)
	}
	return f
}

func checkSlices1(t trace, lhs, rhs []int) *mc.Failure {
	return checkSlicesWith(t, lhs, rhs, func(a, b []int) int { n, _ := lcsInfo(a, b); return n })
}

// lcsLen is the two-row length-only oracle used for the huge inputs.
func lcsLen(a, b []int) int {
	prev := make([]int, len(b)+1)
	cur := make([]int, len(b)+1)
	for i := 1; i <= len(a); i++ {
		x := a[i-1]
		for j := 1; j <= len(b); j++ {
			switch {
			case x == b[j-1]:
				cur[j] = prev[j-1] + 1
			case prev[j] >= cur[j-1]:
				cur[j] = prev[j]
			default:
				cur[j] = cur[j-1]
			}
		}
		prev, cur = cur, prev
	}
	return prev[len(b)]
}

// hugeLimit: a 65537 x 65537 table takes tens of seconds, not microseconds.
const hugeLimit = 15 * time.Minute

// huge describes a pair built by mc.HugePair.
type huge struct {
	Kind string `json:"kind"`
	N    int    `json:"n"`
	Swap bool   `json:"swap,omitempty"`
}

func checkHuge(h huge) *mc.Failure {
	a, b := mc.HugePair(h.Kind, h.N)
	if h.Swap {
		a, b = b, a
	}
	t := trace{a, b}
	lhs := append([]int(nil), a...)
	rhs := append([]int(nil), b...)
	f := mc.GuardTL("editscript-huge", h, hugeLimit, func() *mc.Failure { return checkSlicesWith(t, lhs, rhs, lcsLen) })
	if f != nil {
		msg := f.Msg
		if i := strings.LastIndex(msg, "]"); i >= 0 && len(msg) > 400 { // keep the verdict after the printed inputs
			msg = "... " + msg[max(i-150, 0):]
		}
		f.Msg = fmt.Sprintf("huge inputs (%s, %d and %d elements): %.400s", h.Kind, len(a), len(b), msg)
	}
	return f
}

func checkSlicesWith(t trace, lhs, rhs []int, lcs func(a, b []int) int) *mc.Failure {
	es := slice.EditScript(lhs, rhs)
	if !mc.EqInts(lhs, t.L) || !mc.EqInts(rhs, t.R) {
		return mc.Failf(0, "EditScript modified its input")
	}
	equal := mc.EqInts(lhs, rhs)
	if equal != (len(es) == 0) {
		return mc.Failf(0, "EditScript(%v,%v) has %d edits; must be empty exactly when the inputs are equal", lhs, rhs, len(es))
	}
	lp, rp, kept := 0, 0, 0
	var out []int
	for i, e := range es {
		if i > 0 && es[i-1].Op == e.Op {
			return mc.Failf(0, "EditScript(%v,%v)=%v: edits %d and %d have the same kind", lhs, rhs, es, i-1, i)
		}
		if i > 0 {
			p := es[i-1].Op
			if p == slice.OpDrop && e.Op == slice.OpCopy || p == slice.OpCopy && e.Op == slice.OpDrop {
				return mc.Failf(0, "EditScript(%v,%v)=%v: drop adjacent to copy at %d is not fused into a replace", lhs, rhs, es, i)
			}
		}
		switch e.Op {
		case slice.OpEmit:
			if len(e.X) == 0 || len(e.Y) != 0 {
				return mc.Failf(0, "EditScript(%v,%v)=%v: malformed emit %d", lhs, rhs, es, i)
			}
			if !same(e.X, lhs, lp) {
				return mc.Failf(0, "EditScript(%v,%v)=%v: emit %d is not the span of lhs at offset %d", lhs, rhs, es, i, lp)
			}
			if rp+len(e.X) > len(rhs) || !mc.EqInts(e.X, rhs[rp:rp+len(e.X)]) {
				return mc.Failf(0, "EditScript(%v,%v)=%v: emit %d does not produce rhs at offset %d", lhs, rhs, es, i, rp)
			}
			out = append(out, e.X...)
			lp += len(e.X)
			rp += len(e.X)
			kept += len(e.X)
		case slice.OpDrop:
			if len(e.X) == 0 || len(e.Y) != 0 || !same(e.X, lhs, lp) {
				return mc.Failf(0, "EditScript(%v,%v)=%v: drop %d is empty or not the span of lhs at offset %d", lhs, rhs, es, i, lp)
			}
			lp += len(e.X)
		case slice.OpCopy:
			if len(e.Y) == 0 || len(e.X) != 0 || !same(e.Y, rhs, rp) {
				return mc.Failf(0, "EditScript(%v,%v)=%v: copy %d is empty or not the span of rhs at offset %d", lhs, rhs, es, i, rp)
			}
			out = append(out, e.Y...)
			rp += len(e.Y)
		case slice.OpReplace:
			if len(e.X) == 0 || len(e.Y) == 0 || !same(e.X, lhs, lp) || !same(e.Y, rhs, rp) {
				return mc.Failf(0, "EditScript(%v,%v)=%v: replace %d is empty or not the spans at offsets %d/%d", lhs, rhs, es, i, lp, rp)
			}
			out = append(out, e.Y...)
			lp += len(e.X)
			rp += len(e.Y)
		default:
			return mc.Failf(0, "EditScript(%v,%v)=%v: unknown op %q", lhs, rhs, es, e.Op)
		}
	}
	if len(es) > 0 {
		if lp != len(lhs) || rp != len(rhs) || !mc.EqInts(out, rhs) {
			return mc.Failf(0, "EditScript(%v,%v)=%v consumes %d/%d of lhs and produces %v", lhs, rhs, es, lp, len(lhs), out)
		}
		if want := lcs(lhs, rhs); kept != want {
			return mc.Failf(0, "EditScript(%v,%v)=%v keeps %d elements, a longest common subsequence has %d", lhs, rhs, es, kept, want)
		}
	}
	return nil
}

// ---- other element types ----
//
// EditScript is generic over comparable element types and may only use ==.
// For *int, == is pointer identity (two pointers to equal ints are different
// elements); for float64, NaN differs from itself and +0 equals -0.

type typedCase struct {
	Type string `json:"type"` // ptr | float
	L    []int  `json:"lhs"`  // indices into the pool of the type
	R    []int  `json:"rhs"`
}

var (
	ptrVals   = [3]int{0, 0, 1}
	ptrPool   = []*int{&ptrVals[0], &ptrVals[1], &ptrVals[2]} // the first two point to equal values
	floatPool = []float64{math.NaN(), 0, math.Copysign(0, -1), 1}
)

// checkScriptT is the oracle of the property for any comparable type, with ==
// as the only notion of equality.
func checkScriptT[T comparable](lhs, rhs []T, show func(T) string) *mc.Failure {
	str := func(xs []T) string {
		var parts []string
		for _, x := range xs {
			parts = append(parts, show(x))
		}
		return "[" + strings.Join(parts, " ") + "]"
	}
	es := slice.EditScript(lhs, rhs)
	equal := len(lhs) == len(rhs)
	for i := 0; equal && i < len(lhs); i++ {
		equal = lhs[i] == rhs[i]
	}
	if equal != (len(es) == 0) {
		return mc.Failf(0, "EditScript(%s,%s) has %d edits; must be empty exactly when the inputs are equal under ==", str(lhs), str(rhs), len(es))
	}
	if len(es) == 0 {
		return nil
	}
	lp, rp, kept := 0, 0, 0
	for i, e := range es {
		switch e.Op {
		case slice.OpEmit:
			for j := range e.X {
				if lp+j >= len(lhs) || rp+j >= len(rhs) || &e.X[j] != &lhs[lp+j] || lhs[lp+j] != rhs[rp+j] {
					return mc.Failf(0, "EditScript(%s,%s): emit %d is not the span of lhs at offset %d equal to rhs at offset %d", str(lhs), str(rhs), i, lp, rp)
				}
			}
			lp, rp, kept = lp+len(e.X), rp+len(e.X), kept+len(e.X)
		case slice.OpDrop:
			lp += len(e.X)
		case slice.OpCopy:
			for j := range e.Y {
				if rp+j >= len(rhs) || &e.Y[j] != &rhs[rp+j] {
					return mc.Failf(0, "EditScript(%s,%s): copy %d is not the span of rhs at offset %d", str(lhs), str(rhs), i, rp)
				}
			}
			rp += len(e.Y)
		case slice.OpReplace:
			lp += len(e.X)
			rp += len(e.Y)
		}
	}
	if lp != len(lhs) || rp != len(rhs) {
		return mc.Failf(0, "EditScript(%s,%s) consumes %d of %d and produces %d of %d elements", str(lhs), str(rhs), lp, len(lhs), rp, len(rhs))
	}
	// optimum under ==
	prev, cur := make([]int, len(rhs)+1), make([]int, len(rhs)+1)
	for i := 1; i <= len(lhs); i++ {
		for j := 1; j <= len(rhs); j++ {
			switch {
			case lhs[i-1] == rhs[j-1]:
				cur[j] = prev[j-1] + 1
			case prev[j] >= cur[j-1]:
				cur[j] = prev[j]
			default:
				cur[j] = cur[j-1]
			}
		}
		prev, cur = cur, prev
	}
	if kept != prev[len(rhs)] {
		return mc.Failf(0, "EditScript(%s,%s) keeps %d elements, a longest common subsequence under == has %d", str(lhs), str(rhs), kept, prev[len(rhs)])
	}
	return nil
}

func checkTyped(c typedCase) *mc.Failure {
	return mc.GuardT("editscript-typed", c, func() *mc.Failure {
		if c.Type == "ptr" {
			l, r := make([]*int, len(c.L)), make([]*int, len(c.R))
			for i, k := range c.L {
				l[i] = ptrPool[k]
			}
			for i, k := range c.R {
				r[i] = ptrPool[k]
			}
			return checkScriptT(l, r, func(p *int) string {
				for k, q := range ptrPool {
					if p == q {
						return fmt.Sprintf("p%d(->%d)", k, *p)
					}
				}
				return "?"
			})
		}
		l, r := make([]float64, len(c.L)), make([]float64, len(c.R))
		for i, k := range c.L {
			l[i] = floatPool[k]
		}
		for i, k := range c.R {
			r[i] = floatPool[k]
		}
		return checkScriptT(l, r, func(f float64) string {
			if f == 0 && math.Signbit(f) {
				return "-0"
			}
			return fmt.Sprint(f)
		})
	})
}

func main() {
	mc.Main("C11", mc.Harness{
		Name: "editscript-typed",
		Explore: func(r *mc.Run) {
			var cases []typedCase
			ps := mc.AllSeqs(3, mc.Pick(r, 4, 5))
			for _, a := range ps {
				for _, b := range ps {
					cases = append(cases, typedCase{"ptr", a, b})
				}
			}
			fs := mc.AllSeqs(4, mc.Pick(r, 3, 4))
			for _, a := range fs {
				for _, b := range fs {
					cases = append(cases, typedCase{"float", a, b})
				}
			}
			mc.ParallelFor(len(cases), r.Workers, func(i int) {
				if f := checkTyped(cases[i]); f != nil {
					r.Violation(mc.Case{Harness: "editscript-typed", Trace: mc.J(cases[i]), Msg: f.Msg})
				}
			})
			n := int64(len(cases))
			r.AddEval(n, n, n, n)
			r.Rule("EditScript on []*int (three pointers, two of them to equal values: == is identity) and []float64 (NaN, +0, -0, 1): every pair of sequences up to the bound; validity, span identity, minimality and emptiness judged with == alone")
			r.Sample(typedCase{"ptr", []int{0, 2}, []int{1, 2}})
		},
		Replay: func(c mc.Case) *mc.Failure {
			var t typedCase
			if err := mc.Unmarshal(c.Trace, &t); err != nil {
				return mc.Failf(-1, "bad trace: %v", err)
			}
			return checkTyped(t)
		},
	}, mc.Harness{
		Name: "editscript",
		Explore: func(r *mc.Run) {
			type dom struct{ vals, maxLen int }
			doms := mc.Pick(r, []dom{{2, 7}, {3, 5}, {4, 4}}, []dom{{2, 9}, {3, 6}, {4, 5}})
			var evals, ambiguous int64
			for _, d := range doms {
				seqs := mc.AllSeqs(d.vals, d.maxLen)
				mc.ParallelFor(len(seqs), r.Workers, func(i int) {
					if r.Expired() {
						return
					}
					var amb int64
					for _, b := range seqs {
						t := trace{seqs[i], b}
						if f := check(t); f != nil {
							r.Violation(mc.Case{Harness: "editscript", Trace: mc.J(t), Msg: f.Msg})
						}
						if _, multi := lcsInfo(seqs[i], b); multi {
							amb++
						}
					}
					atomic.AddInt64(&evals, int64(len(seqs)))
					atomic.AddInt64(&ambiguous, amb)
				})
				if r.Expired() {
					r.NotExhaustive("tier budget reached")
				}
				r.Bound(fmt.Sprintf("alphabet_%d", d.vals), fmt.Sprintf("all %d x %d pairs of sequences up to length %d", len(seqs), len(seqs), d.maxLen))
			}
			// longer structured inputs (thresholds, buffer sizes, long common runs)
			long := mc.LongSeqs(3, mc.Pick(r, []int{12, 17, 33, 64, 65, 130}, []int{12, 17, 33, 64, 65, 130, 257, 400}))
			long = append(long, mc.LongSeqs(2, []int{16, 40, 100})...)
			var nlong int64
			mc.ParallelFor(len(long), r.Workers, func(i int) {
				for j := range long {
					if len(long[i])*len(long[j]) > 70000 {
						continue
					}
					t := trace{long[i], long[j]}
					if f := check(t); f != nil {
						f.Msg = fmt.Sprintf("long inputs (%d and %d elements): %.300s", len(t.L), len(t.R), f.Msg)
						r.Violation(mc.Case{Harness: "editscript", Trace: mc.J(t), Msg: f.Msg})
					}
					atomic.AddInt64(&nlong, 1)
				}
				// a near-copy: one element removed / inserted / changed in the middle
				a := long[i]
				if len(a) >= 4 {
					m := len(a) / 2
					for _, b := range [][]int{append(append([]int{}, a[:m]...), a[m+1:]...), append(append(append([]int{}, a[:m]...), 1), a[m:]...), append(append(append([]int{}, a[:m]...), (a[m]+1)%3), a[m+1:]...)} {
						for _, t := range []trace{{a, b}, {b, a}} {
							if f := check(t); f != nil {
								f.Msg = fmt.Sprintf("long near-copies (%d and %d elements): %.300s", len(t.L), len(t.R), f.Msg)
								r.Violation(mc.Case{Harness: "editscript", Trace: mc.J(t), Msg: f.Msg})
							}
							atomic.AddInt64(&nlong, 1)
						}
					}
				}
			})
			r.Count("long_structured_pairs", nlong)
			evals += nlong
			r.AddEval(evals, evals, evals, ambiguous)
			r.Rule("every ordered pair of sequences over each small alphabet up to its length bound, plus all pairs of a fixed family of longer structured sequences (lengths 12..130/400) and their near-copies; non-trivial = pairs with more than one optimal alignment (counted by the DP)")
			r.Sample(trace{[]int{0, 1, 0, 1}, []int{1, 0, 1, 0, 0}})
		},
		Replay: func(c mc.Case) *mc.Failure {
			var t trace
			if err := mc.Unmarshal(c.Trace, &t); err != nil {
				return mc.Failf(-1, "bad trace: %v", err)
			}
			return check(t)
		},
	}, mc.Harness{
		Name: "editscript-huge", HangLimit: hugeLimit,
		Explore: func(r *mc.Run) {
			// sizes around powers of two, where fixed-size buffers, narrowed
			// index types and strides change behaviour
			sizes := mc.Pick(r, []int{1023, 1024, 1025, 4095, 4096, 4097}, []int{1023, 1024, 1025, 4095, 4096, 4097, 16383, 16384, 16385, 32768, 65535, 65536, 65537})
			var cases []huge
			for _, n := range sizes {
				for _, k := range mc.HugeKinds {
					if n > 5000 && (k == "periodic" || k == "lcg4") {
						continue // these allocate a path node per matching cell
					}
					cases = append(cases, huge{k, n, false})
					if k != "equal" && k != "change" {
						cases = append(cases, huge{k, n, true})
					}
				}
			}
			mc.ParallelFor(len(cases), r.Workers, func(i int) {
				if r.Expired() {
					return
				}
				if f := checkHuge(cases[i]); f != nil {
					r.Violation(mc.Case{Harness: "editscript-huge", Trace: mc.J(cases[i]), Msg: f.Msg})
				}
			})
			if r.Expired() {
				r.NotExhaustive("tier budget reached")
			}
			r.AddEval(int64(len(cases)), int64(len(cases)), int64(len(cases)), int64(len(cases)))
			r.Bound("sizes", fmt.Sprint(sizes))
			r.Bound("kinds", fmt.Sprint(mc.HugeKinds))
			r.Rule("a fixed family of long pairs (distinct elements with one insertion, deletion, change, swapped halves, reversed tail; 3- and 4-valued sequences up to 4097) at sizes around powers of two, both argument orders, against a two-row length oracle")
			r.Sample(huge{"insert", 4096, false})
		},
		Replay: func(c mc.Case) *mc.Failure {
			var h huge
			if err := mc.Unmarshal(c.Trace, &h); err != nil {
				return mc.Failf(-1, "bad trace: %v", err)
			}
			return checkHuge(h)
		},
	}, mc.Harness{
		Name: "editscript-aliased",
		Explore: func(r *mc.Run) {
			seqs := mc.AllSeqs(2, mc.Pick(r, 6, 8))
			var evals, overlapping int64
			mc.ParallelFor(len(seqs), r.Workers, func(i int) {
				s := seqs[i]
				n := len(s)
				for a0 := 0; a0 <= n; a0++ {
					for a1 := a0; a1 <= n; a1++ {
						for b0 := 0; b0 <= n; b0++ {
							for b1 := b0; b1 <= n; b1++ {
								al := aliased{s, a0, a1, b0, b1}
								if f := checkAliased(al); f != nil {
									r.Violation(mc.Case{Harness: "editscript-aliased", Trace: mc.J(al), Msg: "aliased inputs: " + f.Msg})
								}
								atomic.AddInt64(&evals, 1)
								if a0 < b1 && b0 < a1 {
									atomic.AddInt64(&overlapping, 1)
								}
							}
						}
					}
				}
			})
			r.AddEval(evals, evals, evals, overlapping)
			r.Rule("lhs and rhs taken as every pair of subslices of one backing array (all sequences over {0,1} up to the bound); non-trivial = overlapping views")
			r.Sample(aliased{[]int{0, 1, 1, 0}, 0, 4, 0, 2})
		},
		Replay: func(c mc.Case) *mc.Failure {
			var a aliased
			if err := mc.Unmarshal(c.Trace, &a); err != nil {
				return mc.Failf(-1, "bad trace: %v", err)
			}
			return checkAliased(a)
		},
	})
}
