//go:build !verif

package main

import "github.com/creachadair/mds/queue"

func fields(q *queue.Queue[int]) (head, n, length, capacity int) { return -1, q.Len(), -1, -1 }
func poison(q *queue.Queue[int], v int)                          {}
