//go:build !verif

package streeh

import "github.com/creachadair/mds/stree"

func hiddenMax(t *stree.Tree[Elem]) int { return -1 }
