package mc

import (
	"fmt"
	"runtime"
)

// Sched is a cooperative scheduler for one execution of a small concurrent
// workload (E3). Threads are goroutines of which exactly one runs at a time;
// control changes hands only at points (mutex operations, seam calls,
// operation boundaries). Every scheduling decision is a choice of the
// underlying Chooser, so the DFS of choice.go enumerates schedules; switching
// away from a thread that is inside an operation and could continue costs
// one deviation (a preemption), every other switch is free.
type Sched struct {
	ch      *Chooser
	threads []*SThread
	cur     int
	mutexes map[any]*smutex
	clock   int // logical time for call/return stamps
	// results
	Deadlock  bool
	DeadInfo  string
	Panics    []string
	Seam      []SeamEvent
	aborted   bool
	done      chan struct{}
	Preempted int
	Switches  int
}

// SThread is one scheduled thread.
type SThread struct {
	ID      int
	s       *Sched
	resume  chan struct{}
	done    bool
	blocked any // mutex the thread waits for, or nil
	wantR   bool
	inOp    bool
	started bool
	vc      []int
	body    func(t *SThread)
}

type smutex struct {
	writer  int // thread id holding the write lock, -1 none
	readers map[int]int
	// pendingW: threads blocked in Lock. As in sync.RWMutex, a pending writer
	// excludes new readers (also a reader that already holds a read lock and
	// asks again: the documented recursive-read-lock deadlock).
	pendingW map[int]bool
	relVC    []int // clock of the last write release
	rdVC     []int // join of the clocks of read releases since the last write acquire
}

// SeamEvent is one call through an instrumented seam.
type SeamEvent struct {
	Thread   int
	Name     string
	Mutating bool
	VC       []int
}

type abortSentinel struct{}

// NewSched prepares a scheduler for the given thread bodies.
func NewSched(ch *Chooser, bodies ...func(t *SThread)) *Sched {
	s := &Sched{ch: ch, mutexes: map[any]*smutex{}, done: make(chan struct{}), cur: -1}
	for i, b := range bodies {
		s.threads = append(s.threads, &SThread{ID: i, s: s, resume: make(chan struct{}), vc: make([]int, len(bodies)), body: b})
	}
	return s
}

// Run executes the workload to completion (or deadlock/abort). Exactly one
// goroutine holds the baton at any time; it is passed through the unbuffered
// resume channels, which also orders all accesses to the scheduler state.
func (s *Sched) Run() {
	for _, t := range s.threads {
		t := t
		go func() {
			<-t.resume
			defer func() {
				if p := recover(); p != nil {
					if _, ok := p.(abortSentinel); !ok {
						s.Panics = append(s.Panics, fmt.Sprintf("thread %d: %v", t.ID, p))
						s.aborted = true
					}
				}
				t.done = true
				t.inOp = false
				if s.aborted {
					s.unwindNext(t)
				} else {
					s.next(t)
				}
			}()
			if s.aborted {
				return
			}
			t.body(t)
		}()
	}
	s.next(nil) // the first thread is a free choice
	<-s.done
	runtime.Gosched()
}

func (s *Sched) enabled(t *SThread) bool {
	if t.done {
		return false
	}
	if t.blocked == nil {
		return true
	}
	m := s.mutexes[t.blocked]
	if t.wantR {
		return m.writer < 0 && len(m.pendingW) == 0
	}
	return m.writer < 0 && len(m.readers) == 0
}

// next chooses the thread that runs next and passes the baton to it. from is
// the thread holding the baton (nil at the start).
func (s *Sched) next(from *SThread) (passed bool) {
	var order []*SThread
	if from != nil && s.enabled(from) {
		order = append(order, from)
	}
	for _, t := range s.threads {
		if t != from && s.enabled(t) {
			order = append(order, t)
		}
	}
	if len(order) == 0 {
		alive := 0
		for _, t := range s.threads {
			if !t.done {
				alive++
				s.DeadInfo += fmt.Sprintf("thread %d waits for a mutex; ", t.ID)
			}
		}
		if alive == 0 {
			close(s.done)
			return true
		}
		s.Deadlock = true
		s.aborted = true
		if from == nil || from.done {
			s.unwindNext(from)
			return true
		}
		// from is alive, still holds the baton and unwinds itself (see Point)
		return false
	}
	free := from == nil || !s.enabled(from) || !from.inOp
	next := order[s.ch.Choose(len(order), free)]
	if next != from {
		s.Switches++
		if !free {
			s.Preempted++
		}
		s.cur = next.ID
		next.resume <- struct{}{}
		return true
	}
	return false
}

// unwindNext passes the baton to a thread that still has to be torn down;
// each one panics with the abort sentinel when it resumes and continues the
// unwinding from its exit path.
func (s *Sched) unwindNext(from *SThread) {
	for _, t := range s.threads {
		if !t.done && t != from {
			s.cur = t.ID
			t.resume <- struct{}{}
			return
		}
	}
	close(s.done)
}

// Point is a scheduling point of the running thread.
func (t *SThread) Point() {
	s := t.s
	if s.aborted {
		panic(abortSentinel{})
	}
	if s.next(t) {
		// The baton is gone: touch no shared state until it comes back.
		<-t.resume
	}
	if s.aborted {
		panic(abortSentinel{})
	}
}

// Cur returns the running thread.
func (s *Sched) Cur() *SThread {
	if s.cur < 0 {
		return nil
	}
	return s.threads[s.cur]
}

// OpBegin marks the start of an operation (a free switching point) and
// returns the logical call time.
func (t *SThread) OpBegin() int {
	t.inOp = false
	if t.started {
		// Between two operations of a thread. (Before its first operation the
		// thread was just dispatched, which already was a free choice; a second
		// one with nothing in between would only duplicate schedules.)
		t.Point()
	}
	t.started = true
	t.s.clock++
	t.inOp = true
	return t.s.clock
}

// OpEnd marks the return of an operation and returns the logical return
// time. It is not a scheduling point of its own: the next OpBegin (or the
// thread's exit) follows immediately and is one.
func (t *SThread) OpEnd() int {
	t.s.clock++
	t.inOp = false
	return t.s.clock
}

func (s *Sched) mutex(m any) *smutex {
	x := s.mutexes[m]
	if x == nil {
		x = &smutex{writer: -1, readers: map[int]int{}, pendingW: map[int]bool{}, relVC: make([]int, len(s.threads)), rdVC: make([]int, len(s.threads))}
		s.mutexes[m] = x
	}
	return x
}

func join(dst, src []int) {
	for i := range dst {
		if src[i] > dst[i] {
			dst[i] = src[i]
		}
	}
}

// Lock acquires m for the running thread (write lock).
func (s *Sched) Lock(m any) {
	t := s.Cur()
	t.Point()
	x := s.mutex(m)
	for x.writer >= 0 || len(x.readers) > 0 {
		if x.writer == t.ID {
			// self-deadlock: stays blocked forever
		}
		t.blocked, t.wantR = m, false
		x.pendingW[t.ID] = true
		t.Point()
		t.blocked = nil
	}
	delete(x.pendingW, t.ID)
	x.writer = t.ID
	join(t.vc, x.relVC)
	join(t.vc, x.rdVC)
}

// Unlock releases the write lock of m.
func (s *Sched) Unlock(m any) {
	t := s.Cur()
	x := s.mutex(m)
	if x.writer != t.ID {
		panic(fmt.Sprintf("sync: unlock of a mutex not locked by thread %d", t.ID))
	}
	x.writer = -1
	t.vc[t.ID]++
	copy(x.relVC, t.vc)
	for i := range x.rdVC {
		x.rdVC[i] = 0
	}
	t.Point()
}

// RLock acquires m for reading.
func (s *Sched) RLock(m any) {
	t := s.Cur()
	t.Point()
	x := s.mutex(m)
	for x.writer >= 0 || len(x.pendingW) > 0 {
		t.blocked, t.wantR = m, true
		t.Point()
		t.blocked = nil
	}
	x.readers[t.ID]++
	join(t.vc, x.relVC)
}

// RUnlock releases a read lock of m.
func (s *Sched) RUnlock(m any) {
	t := s.Cur()
	x := s.mutex(m)
	if x.readers[t.ID] == 0 {
		panic(fmt.Sprintf("sync: RUnlock of a mutex not read-locked by thread %d", t.ID))
	}
	x.readers[t.ID]--
	if x.readers[t.ID] == 0 {
		delete(x.readers, t.ID)
	}
	t.vc[t.ID]++
	join(x.rdVC, t.vc)
	t.Point()
}

// TryLock attempts the write lock without blocking.
func (s *Sched) TryLock(m any) bool {
	t := s.Cur()
	t.Point()
	x := s.mutex(m)
	if x.writer >= 0 || len(x.readers) > 0 {
		return false
	}
	x.writer = t.ID
	join(t.vc, x.relVC)
	join(t.vc, x.rdVC)
	return true
}

// SeamCall records a call through an instrumented seam by the running
// thread. With point set it is also a scheduling point. (Races at the seam are
// found by the happens-before analysis of any one execution, so scheduling
// points there are only needed to expose atomicity violations that have no
// lock operation nearby.)
func (s *Sched) SeamCall(name string, mutating, point bool) {
	t := s.Cur()
	if point {
		t.Point()
	}
	t.vc[t.ID]++
	s.Seam = append(s.Seam, SeamEvent{Thread: t.ID, Name: name, Mutating: mutating, VC: append([]int(nil), t.vc...)})
}

// Races returns the conflicting seam calls that are unordered by
// happens-before (program order, unlock->lock edges).
func (s *Sched) Races() []string {
	var out []string
	for j := 1; j < len(s.Seam); j++ {
		for i := 0; i < j; i++ {
			a, b := s.Seam[i], s.Seam[j]
			if a.Thread == b.Thread || !(a.Mutating || b.Mutating) {
				continue
			}
			// a ran first in this execution; it happens-before b iff b's clock
			// has seen a's own component.
			if b.VC[a.Thread] < a.VC[a.Thread] {
				out = append(out, fmt.Sprintf("%s by thread %d and %s by thread %d are not ordered by any lock", a.Name, a.Thread, b.Name, b.Thread))
			}
		}
	}
	return out
}
