package mdiffh

import (
	"fmt"
	"os"
	"os/exec"
	"path/filepath"
	"regexp"
	"strconv"
	"strings"
)

// Reference patch appliers, written from the GNU diffutils manual ("Detailed
// Description of Normal/Unified/Context Format") with GNU patch's reading of
// omitted counts and empty ranges. They are strict: every context line and
// every deleted line must match the input at exactly the stated position (no
// fuzz, no offset search), so a hunk that would only "work by luck" somewhere
// else is rejected.

func splitLines(text string) []string {
	if text == "" {
		return nil
	}
	return strings.Split(strings.TrimSuffix(text, "\n"), "\n")
}

var normalCmd = regexp.MustCompile(`^(\d+)(?:,(\d+))?([acd])(\d+)(?:,(\d+))?$`)

func atoi(s string) int { n, _ := strconv.Atoi(s); return n }

// ApplyNormal applies a normal-format diff to left.
func ApplyNormal(text string, left []string) ([]string, error) {
	lines := splitLines(text)
	var out []string
	pos := 0 // lines of left consumed so far
	for i := 0; i < len(lines); {
		m := normalCmd.FindStringSubmatch(lines[i])
		if m == nil {
			return nil, fmt.Errorf("line %d: not a change command: %q", i+1, lines[i])
		}
		i++
		l1 := atoi(m[1])
		l2 := l1
		if m[2] != "" {
			l2 = atoi(m[2])
		}
		r1 := atoi(m[4])
		r2 := r1
		if m[5] != "" {
			r2 = atoi(m[5])
		}
		var del, add []string
		for i < len(lines) && strings.HasPrefix(lines[i], "< ") {
			del = append(del, lines[i][2:])
			i++
		}
		if m[3] == "c" {
			if i >= len(lines) || lines[i] != "---" {
				return nil, fmt.Errorf("change command %q without --- separator", m[0])
			}
			i++
		}
		for i < len(lines) && strings.HasPrefix(lines[i], "> ") {
			add = append(add, lines[i][2:])
			i++
		}
		var start int // index in left where the command acts
		switch m[3] {
		case "a": // lines r1..r2 of right appear after line l1 of left
			if m[2] != "" || len(del) != 0 || len(add) != r2-r1+1 {
				return nil, fmt.Errorf("malformed add command %q (%d lines)", m[0], len(add))
			}
			start = l1
		case "d": // lines l1..l2 of left are deleted; they would appear after r1
			if m[5] != "" || len(add) != 0 || len(del) != l2-l1+1 {
				return nil, fmt.Errorf("malformed delete command %q (%d lines)", m[0], len(del))
			}
			start = l1 - 1
		case "c":
			if len(del) != l2-l1+1 || len(add) != r2-r1+1 {
				return nil, fmt.Errorf("malformed change command %q (%d/%d lines)", m[0], len(del), len(add))
			}
			start = l1 - 1
		}
		if start < pos || start+len(del) > len(left) {
			return nil, fmt.Errorf("command %q is out of order or out of range (consumed %d of %d lines)", m[0], pos, len(left))
		}
		for k, d := range del {
			if left[start+k] != d {
				return nil, fmt.Errorf("command %q deletes %q but line %d is %q", m[0], d, start+k+1, left[start+k])
			}
		}
		out = append(out, left[pos:start]...)
		out = append(out, add...)
		pos = start + len(del)
		// the right-hand numbers must describe where the result lands
		wantR := len(out) - len(add) + 1
		if m[3] == "d" {
			wantR = len(out)
		}
		if r1 != wantR {
			return nil, fmt.Errorf("command %q: right-hand line number %d, but the change lands at %d", m[0], r1, wantR)
		}
	}
	return append(out, left[pos:]...), nil
}

var unifiedHdr = regexp.MustCompile(`^@@ -(\d+)(?:,(\d+))? \+(\d+)(?:,(\d+))? @@`)

// ApplyUnified applies a unified-format diff to left.
func ApplyUnified(text string, left []string) ([]string, error) {
	lines := splitLines(text)
	i := 0
	if i+1 < len(lines) && strings.HasPrefix(lines[i], "--- ") && strings.HasPrefix(lines[i+1], "+++ ") {
		i += 2
	}
	var out []string
	pos := 0
	for i < len(lines) {
		m := unifiedHdr.FindStringSubmatch(lines[i])
		if m == nil {
			return nil, fmt.Errorf("line %d: not a hunk header: %q", i+1, lines[i])
		}
		i++
		l, lc, r, rc := atoi(m[1]), 1, atoi(m[3]), 1
		if m[2] != "" {
			lc = atoi(m[2])
		}
		if m[4] != "" {
			rc = atoi(m[4])
		}
		// An empty range names the line before it.
		start := l - 1
		if lc == 0 {
			start = l
		}
		rstart := r - 1
		if rc == 0 {
			rstart = r
		}
		if start < pos || start > len(left) {
			return nil, fmt.Errorf("hunk %q starts at line %d, out of order or out of range (consumed %d of %d)", m[0], start+1, pos, len(left))
		}
		out = append(out, left[pos:start]...)
		pos = start
		if len(out) != rstart {
			return nil, fmt.Errorf("hunk %q: right-hand start %d, but the hunk lands at line %d of the result", m[0], rstart+1, len(out)+1)
		}
		nl, nr := 0, 0
		for nl < lc || nr < rc {
			if i >= len(lines) {
				return nil, fmt.Errorf("hunk %q is truncated", m[0])
			}
			ln := lines[i]
			i++
			if ln == "" {
				return nil, fmt.Errorf("hunk %q: empty line in hunk body", m[0])
			}
			switch ln[0] {
			case ' ', '-':
				if pos >= len(left) || left[pos] != ln[1:] {
					got := "end of file"
					if pos < len(left) {
						got = fmt.Sprintf("%q", left[pos])
					}
					return nil, fmt.Errorf("hunk %q: line %d should be %q but is %s", m[0], pos+1, ln[1:], got)
				}
				pos++
				nl++
				if ln[0] == ' ' {
					out = append(out, ln[1:])
					nr++
				}
			case '+':
				out = append(out, ln[1:])
				nr++
			default:
				return nil, fmt.Errorf("hunk %q: unexpected body line %q", m[0], ln)
			}
		}
		if nl != lc || nr != rc {
			return nil, fmt.Errorf("hunk %q: body has %d/%d lines", m[0], nl, nr)
		}
	}
	return append(out, left[pos:]...), nil
}

var ctxRange = regexp.MustCompile(`^(?:\*\*\*|---) (\d+)(?:,(\d+))? (?:\*\*\*\*|----)$`)

func parseCtxRange(s string) (start, count int, err error) {
	m := ctxRange.FindStringSubmatch(s)
	if m == nil {
		return 0, 0, fmt.Errorf("not a range line: %q", s)
	}
	a := atoi(m[1])
	switch {
	case m[2] != "":
		return a, atoi(m[2]) - a + 1, nil
	case a == 0:
		return 1, 0, nil
	default:
		return a, 1, nil
	}
}

// ApplyContext applies a context-format diff to left.
func ApplyContext(text string, left []string) ([]string, error) {
	lines := splitLines(text)
	i := 0
	if i+1 < len(lines) && strings.HasPrefix(lines[i], "*** ") && strings.HasPrefix(lines[i+1], "--- ") && !strings.HasSuffix(lines[i], " ****") {
		i += 2
	}
	var out []string
	pos := 0
	for i < len(lines) {
		if lines[i] != "***************" {
			return nil, fmt.Errorf("line %d: expected hunk separator, got %q", i+1, lines[i])
		}
		i++
		if i >= len(lines) {
			return nil, fmt.Errorf("truncated hunk")
		}
		ls, lc, err := parseCtxRange(lines[i])
		if err != nil || !strings.HasPrefix(lines[i], "*** ") {
			return nil, fmt.Errorf("bad left range %q", lines[i])
		}
		i++
		var lbody []string
		for i < len(lines) && len(lbody) < lc && isBody(lines[i], "-! ") {
			lbody = append(lbody, lines[i])
			i++
		}
		if i >= len(lines) {
			return nil, fmt.Errorf("hunk without right half")
		}
		rs, rc, err := parseCtxRange(lines[i])
		if err != nil || !strings.HasPrefix(lines[i], "--- ") {
			return nil, fmt.Errorf("bad right range %q (left body %d of %d lines)", lines[i], len(lbody), lc)
		}
		i++
		var rbody []string
		for i < len(lines) && len(rbody) < rc && isBody(lines[i], "+! ") {
			rbody = append(rbody, lines[i])
			i++
		}
		// An omitted half is the context of the other half.
		if len(lbody) == 0 && lc > 0 {
			for _, b := range rbody {
				if b[0] == ' ' {
					lbody = append(lbody, b)
				}
			}
		}
		if len(rbody) == 0 && rc > 0 {
			for _, b := range lbody {
				if b[0] == ' ' {
					rbody = append(rbody, b)
				}
			}
		}
		if len(lbody) != lc || len(rbody) != rc {
			return nil, fmt.Errorf("hunk at left %d,+%d right %d,+%d has %d/%d body lines", ls, lc, rs, rc, len(lbody), len(rbody))
		}
		start := ls - 1
		if start < pos || start+lc > len(left) {
			return nil, fmt.Errorf("hunk at left line %d is out of order or out of range", ls)
		}
		for k, b := range lbody {
			if left[start+k] != b[2:] {
				return nil, fmt.Errorf("hunk at left line %d: line %d should be %q but is %q", ls, start+k+1, b[2:], left[start+k])
			}
		}
		out = append(out, left[pos:start]...)
		if len(out) != rs-1 {
			return nil, fmt.Errorf("hunk right-hand start %d, but it lands at line %d of the result", rs, len(out)+1)
		}
		// The context lines of both halves must agree and interleave: walk both.
		li, ri := 0, 0
		for li < len(lbody) || ri < len(rbody) {
			switch {
			case li < len(lbody) && lbody[li][0] != ' ':
				li++ // deleted / changed-from line
			case ri < len(rbody) && rbody[ri][0] != ' ':
				out = append(out, rbody[ri][2:])
				ri++
			case li < len(lbody) && ri < len(rbody):
				if lbody[li][2:] != rbody[ri][2:] {
					return nil, fmt.Errorf("hunk at left line %d: context lines of the two halves differ: %q vs %q", ls, lbody[li], rbody[ri])
				}
				out = append(out, rbody[ri][2:])
				li++
				ri++
			default:
				return nil, fmt.Errorf("hunk at left line %d: halves do not interleave", ls)
			}
		}
		pos = start + lc
	}
	return append(out, left[pos:]...), nil
}

func isBody(s, marks string) bool {
	return len(s) >= 2 && s[1] == ' ' && (s[0] == ' ' || strings.IndexByte(marks, s[0]) >= 0)
}

// GNUPatch applies text to left with /usr/bin/patch (kind: n, u or c). It
// returns the result lines, or an error when patch rejects the input.
func GNUPatch(dir, kind, text string, left []string) ([]string, error) {
	lf := filepath.Join(dir, "left")
	pf := filepath.Join(dir, "p.diff")
	of := filepath.Join(dir, "out")
	join := func(ls []string) string {
		if len(ls) == 0 {
			return ""
		}
		return strings.Join(ls, "\n") + "\n"
	}
	if err := os.WriteFile(lf, []byte(join(left)), 0o644); err != nil {
		return nil, err
	}
	if err := os.WriteFile(pf, []byte(text), 0o644); err != nil {
		return nil, err
	}
	os.Remove(of)
	cmd := exec.Command("patch", "-s", "-f", "-F0", "-"+kind, "-r", "-", "-o", of, "-i", pf, lf)
	cmd.Dir = dir
	b, err := cmd.CombinedOutput()
	if err != nil {
		return nil, fmt.Errorf("patch: %v: %s", err, strings.TrimSpace(string(b)))
	}
	if s := strings.TrimSpace(string(b)); s != "" {
		return nil, fmt.Errorf("patch said: %s", s)
	}
	data, err := os.ReadFile(of)
	if err != nil {
		return nil, err
	}
	return splitLines(string(data)), nil
}

// HavePatch reports whether GNU patch is available.
func HavePatch() bool { _, err := exec.LookPath("patch"); return err == nil }
