// Package streeh holds the stree.Tree harness shared by checks C01 (sorted
// set semantics) and C02 (height bound): instance with reference model,
// observers, exact depth oracle.
package streeh

import (
	"fmt"
	"math/big"
	"sort"
	"strings"

	"verif/mc"

	"github.com/creachadair/mds/stree"
)

// Elem is a key with a tag; only K takes part in comparison, so the stored
// representative of an equivalence class is observable through T.
type Elem struct{ K, T int }

// Op is one tree operation.
type Op struct {
	K string `json:"k"` // add replace remove clear
	A int    `json:"a,omitempty"`
	T int    `json:"t,omitempty"`
}

func (o Op) String() string { return fmt.Sprintf("%s(%d/%d)", o.K, o.A, o.T) }

// Mode selects the oracles.
type Mode struct {
	Set   bool // C01: sorted-set observers, clone independence
	Depth bool // C02: exact depth bound and comparison count
}

// Inst is a real tree with its reference.
type Inst struct {
	Beta  int
	Keys  int // key values 0..Keys-1
	Tags  int
	Mode  Mode
	T     *stree.Tree[Elem]
	Ref   []Elem // sorted by K
	P     int    // largest Len since created, cleared or last empty
	ncmp  *int64
	Stats *Stats
	// emptied: the tree held keys and became empty again at least once (part
	// of the state key: hidden state may survive such a reset).
	emptied, used bool
}

// Stats are coverage counters (updated only by checked steps; the caller
// serialises or uses one per goroutine).
type Stats struct {
	TwoChildRemovals, ShapeChangedByInsert, DeleteRebuilds, MaxSlackZero int64
	MinSlack                                                             int
}

// Cmp is deliberately not normalised to -1/0/+1: the documented contract is
// only about the sign.
func cmpFor(n *int64) func(a, b Elem) int {
	return func(a, b Elem) int {
		*n++
		return 3 * (a.K - b.K)
	}
}

// New builds an instance around stree.New(beta, cmp, keys...).
func New(beta, keys, tags int, mode Mode, st *Stats, init ...Elem) *Inst {
	n := new(int64)
	s := &Inst{Beta: beta, Keys: keys, Tags: tags, Mode: mode, ncmp: n, Stats: st}
	s.T = stree.New(beta, cmpFor(n), init...)
	// Reference: one representative per key; any of the given equivalents.
	seen := map[int]bool{}
	for _, e := range init {
		if !seen[e.K] {
			seen[e.K] = true
			s.Ref = append(s.Ref, e)
		}
	}
	sort.Slice(s.Ref, func(i, j int) bool { return s.Ref[i].K < s.Ref[j].K })
	s.P = len(s.Ref)
	return s
}

// Enabled implements mc.Inst.
func (s *Inst) Enabled() []Op {
	var ops []Op
	for k := 0; k < s.Keys; k++ {
		for t := 0; t < s.Tags; t++ {
			ops = append(ops, Op{K: "add", A: k, T: t}, Op{K: "replace", A: k, T: t})
		}
		ops = append(ops, Op{K: "remove", A: k})
	}
	return append(ops, Op{K: "clear"})
}

// Shape renders the tree in pre-order through the public cursor API and
// returns the maximum depth (edges below the root; -1 for an empty tree).
func Shape(t *stree.Tree[Elem]) (string, int) {
	var sb strings.Builder
	maxd := -1
	var walk func(c *stree.Cursor[Elem], d int)
	walk = func(c *stree.Cursor[Elem], d int) {
		if !c.Valid() {
			sb.WriteByte('.')
			return
		}
		if d > maxd {
			maxd = d
		}
		k := c.Key()
		fmt.Fprintf(&sb, "(%d/%d", k.K, k.T)
		walk(c.Clone().Left(), d+1)
		walk(c.Clone().Right(), d+1)
		sb.WriteByte(')')
	}
	walk(t.Root(), 0)
	return sb.String(), maxd
}

// MaxDepth returns the maximum depth (edges below the root; -1 for an empty
// tree) by walking one cursor through the public navigation API, without
// building the shape string.
func MaxDepth(t *stree.Tree[Elem]) int {
	c := t.Root()
	if !c.Valid() {
		return -1
	}
	// Iterative post-order walk with Left/Right/Up; state = where we came from.
	best, d := 0, 0
	const (
		down = iota
		fromLeft
		fromRight
	)
	from := down
	for {
		switch from {
		case down:
			if d > best {
				best = d
			}
			if c.HasLeft() {
				c.Left()
				d++
				continue
			}
			from = fromLeft
		case fromLeft:
			if c.HasRight() {
				c.Right()
				d++
				from = down
				continue
			}
			from = fromRight
		case fromRight:
			if !c.HasParent() {
				return best
			}
			k := c.Key().K
			c.Up()
			d--
			if k < c.Key().K {
				from = fromLeft
			} else {
				from = fromRight
			}
		}
	}
}

// Key implements mc.Inst: shape + hidden max + P (when the depth oracle needs
// it). beta is fixed per search.
func (s *Inst) Key() string {
	sh, _ := Shape(s.T)
	k := fmt.Sprintf("%s m%d %s", sh, hiddenMax(s.T), mc.Fingerprint(s.T))
	if s.emptied {
		k += " E"
	}
	if s.Mode.Depth {
		k += fmt.Sprintf(" P%d", s.P)
	}
	return k
}

func (s *Inst) find(k int) int {
	return sort.Search(len(s.Ref), func(i int) bool { return s.Ref[i].K >= k })
}

// applyRef applies op to the reference and returns the expected boolean.
func (s *Inst) applyRef(o Op) bool {
	i := s.find(o.A)
	present := i < len(s.Ref) && s.Ref[i].K == o.A
	switch o.K {
	case "add":
		if present {
			return false
		}
		s.Ref = append(s.Ref, Elem{})
		copy(s.Ref[i+1:], s.Ref[i:])
		s.Ref[i] = Elem{o.A, o.T}
		return true
	case "replace":
		if present {
			s.Ref[i] = Elem{o.A, o.T}
			return false
		}
		s.Ref = append(s.Ref, Elem{})
		copy(s.Ref[i+1:], s.Ref[i:])
		s.Ref[i] = Elem{o.A, o.T}
		return true
	case "remove":
		if !present {
			return false
		}
		s.Ref = append(s.Ref[:i:i], s.Ref[i+1:]...)
		return true
	case "clear":
		s.Ref = nil
	}
	return false
}

func applyTree(t *stree.Tree[Elem], o Op) bool {
	switch o.K {
	case "add":
		return t.Add(Elem{o.A, o.T})
	case "replace":
		return t.Replace(Elem{o.A, o.T})
	case "remove":
		return t.Remove(Elem{K: o.A, T: -5})
	case "clear":
		t.Clear()
	}
	return false
}

// Apply implements mc.Inst.
func (s *Inst) Apply(o Op, check bool) *mc.Failure {
	var before string
	var clone *stree.Tree[Elem]
	if check && s.Mode.Set {
		before, _ = Shape(s.T)
		// Probe 1: the operation applied to a clone leaves the original alone.
		clone = s.T.Clone()
		gotc := applyTree(clone, o)
		if sh, _ := Shape(s.T); sh != before {
			return mc.Failf(0, "%v applied to a Clone changed the original: %s -> %s", o, before, sh)
		}
		refc := &Inst{Keys: s.Keys, Ref: append([]Elem(nil), s.Ref...)}
		if want := refc.applyRef(o); gotc != want && o.K != "clear" {
			return mc.Failf(0, "%v on a Clone returned %v, want %v", o, gotc, want)
		}
		if f := contents(clone, refc.Ref, "clone after "+o.String()); f != nil {
			return f
		}
	}
	// Probe 3 (prepared here, used after the operation): a second clone taken
	// before the operation gets *different* mutations afterwards - storage the
	// two trees still share (a recycled node, a scratch buffer) is written
	// with different contents by the two and shows in one of them.
	var clone2 *stree.Tree[Elem]
	var ref2 []Elem
	if check && s.Mode.Set {
		clone2 = s.T.Clone()
		ref2 = append([]Elem(nil), s.Ref...)
	}
	nonEmptyBefore := len(s.Ref) > 0
	twoChild := false
	if check && o.K == "remove" && s.Stats != nil {
		if c := s.T.Cursor(Elem{K: o.A}); c.Valid() && c.HasLeft() && c.HasRight() {
			twoChild = true
		}
	}
	m0 := hiddenMax(s.T)
	got := applyTree(s.T, o)
	want := s.applyRef(o)
	// P: largest Len since created, cleared or last empty.
	switch {
	case o.K == "clear" || len(s.Ref) == 0:
		s.P = 0
	case len(s.Ref) > s.P:
		s.P = len(s.Ref)
	}
	_ = nonEmptyBefore
	if len(s.Ref) > 0 {
		s.used = true
	} else if s.used {
		s.emptied = true
	}
	if !check {
		return nil
	}
	if o.K != "clear" && got != want {
		return mc.Failf(0, "%v returned %v, want %v (reference %v)", o, got, want, s.Ref)
	}
	if s.Stats != nil {
		if twoChild {
			s.Stats.TwoChildRemovals++
		}
		if o.K == "remove" && want && hiddenMax(s.T) >= 0 && hiddenMax(s.T) < m0 {
			s.Stats.DeleteRebuilds++
		}
	}
	if s.Mode.Set && clone2 != nil {
		after, _ := Shape(s.T)
		// an insertion of a key outside the domain and a removal on the early clone
		alt := &Inst{Keys: s.Keys, Ref: ref2}
		alts := []Op{{K: "add", A: -2, T: 1}, {K: "remove", A: o.A}}
		for _, a := range alts {
			gota := applyTree(clone2, a)
			if wanta := alt.applyRef(a); gota != wanta {
				return mc.Failf(0, "%v on a Clone taken before %v returned %v, want %v", a, o, gota, wanta)
			}
		}
		if sh, _ := Shape(s.T); sh != after {
			return mc.Failf(0, "after %v, %v applied to a Clone taken before it changed the original: %s -> %s", o, alts, after, sh)
		}
		if f := contents(clone2, alt.Ref, fmt.Sprintf("clone taken before %v, after its own mutations", o)); f != nil {
			return f
		}
	}
	if s.Mode.Set {
		if f := s.Observe(); f != nil {
			return f
		}
		// Probe 2: the clone taken before is still in the post-state it
		// reached on its own and equals the original's new state.
		sh, _ := Shape(s.T)
		shc, _ := Shape(clone)
		if sh != shc || hiddenMax(clone) != hiddenMax(s.T) {
			return mc.Failf(0, "%v: clone and original diverge: original %s max=%d, clone %s max=%d", o, sh, hiddenMax(s.T), shc, hiddenMax(clone))
		}
	}
	if s.Mode.Depth {
		if f := s.CheckDepth(); f != nil {
			return f
		}
	}
	return nil
}

// contents checks Len and the in-order listing of t against ref.
func contents(t *stree.Tree[Elem], ref []Elem, who string) *mc.Failure {
	if t.Len() != len(ref) {
		return mc.Failf(0, "%s: Len=%d want %d", who, t.Len(), len(ref))
	}
	var got []Elem
	t.Inorder(func(e Elem) bool { got = append(got, e); return len(got) <= len(ref)+2 })
	if !eqElems(got, ref) {
		return mc.Failf(0, "%s: Inorder=%v want %v", who, got, ref)
	}
	return nil
}

func eqElems(a, b []Elem) bool {
	if len(a) != len(b) {
		return false
	}
	for i := range a {
		if a[i] != b[i] {
			return false
		}
	}
	return true
}

// Observe compares every observer of C01 with the reference.
func (s *Inst) Observe() *mc.Failure {
	t, ref := s.T, s.Ref
	n := len(ref)
	if f := contents(t, ref, "tree"); f != nil {
		return f
	}
	if t.IsEmpty() != (n == 0) {
		return mc.Failf(0, "IsEmpty=%v with %d elements", t.IsEmpty(), n)
	}
	var zero Elem
	wmin, wmax := zero, zero
	if n > 0 {
		wmin, wmax = ref[0], ref[n-1]
	}
	if g := t.Min(); g != wmin {
		return mc.Failf(0, "Min=%v want %v", g, wmin)
	}
	if g := t.Max(); g != wmax {
		return mc.Failf(0, "Max=%v want %v", g, wmax)
	}
	for k := -1; k <= s.Keys; k++ {
		g, ok := t.Get(Elem{K: k, T: -7})
		i := s.find(k)
		if i < n && ref[i].K == k {
			if !ok || g != ref[i] {
				return mc.Failf(0, "Get(%d)=(%v,%v) want (%v,true)", k, g, ok, ref[i])
			}
		} else if ok || g != zero {
			return mc.Failf(0, "Get(%d)=(%v,%v) want (zero,false)", k, g, ok)
		}
		// InorderAfter(k): every element >= k, ascending; stoppable.
		want := ref[i:]
		var got []Elem
		for e := range t.InorderAfter(Elem{K: k, T: -9}) {
			got = append(got, e)
		}
		if !eqElems(got, want) {
			return mc.Failf(0, "InorderAfter(%d)=%v want %v", k, got, want)
		}
		for stop := 1; stop <= len(want); stop++ {
			c := 0
			for range t.InorderAfter(Elem{K: k}) {
				c++
				if c == stop {
					break
				}
			}
			if c != stop {
				return mc.Failf(0, "InorderAfter(%d) stopped after %d items, want %d", k, c, stop)
			}
		}
	}
	for stop := 1; stop <= n; stop++ {
		c := 0
		t.Inorder(func(Elem) bool { c++; return c < stop })
		if c != stop {
			return mc.Failf(0, "Inorder did not stop after %d items (visited %d)", stop, c)
		}
	}
	return nil
}

// DepthAllowed reports whether depth d (edges below the root) is within
// log_{2000/(1000+beta)}(P) + 1, decided in exact integer arithmetic:
// d-1 <= log_b P  <=>  2000^(d-1) <= P * (1000+beta)^(d-1).
func DepthAllowed(d, P, beta int) bool {
	if d <= 1 {
		return true
	}
	if P <= 0 {
		return false
	}
	e := big.NewInt(int64(d - 1))
	lhs := new(big.Int).Exp(big.NewInt(2000), e, nil)
	rhs := new(big.Int).Exp(big.NewInt(int64(1000+beta)), e, nil)
	rhs.Mul(rhs, big.NewInt(int64(P)))
	return lhs.Cmp(rhs) <= 0
}

// MaxAllowedDepth is the largest allowed depth for (P, beta), beta < 1000.
func MaxAllowedDepth(P, beta int) int {
	// A tree that never held more than P keys cannot be deeper than P-1, so
	// the search is capped there (for beta near 1000 the logarithm is huge).
	d := 1
	for d+1 < P && DepthAllowed(d+1, P, beta) {
		d++
	}
	return d
}

// DepthOracle computes MaxAllowedDepth incrementally for a non-decreasing
// sequence of P values (it restarts when P drops), multiplying the two powers
// up step by step instead of exponentiating from scratch.
type DepthOracle struct {
	beta     int
	lastP, d int
	lhs, rhs *big.Int // 2000^d and (1000+beta)^d for the current d (d = allowed depth - 1 + 1)
}

// NewDepthOracle returns an oracle for the balance factor.
func NewDepthOracle(beta int) *DepthOracle { return &DepthOracle{beta: beta, lastP: -1} }

// Allowed returns the largest allowed depth for P (capped at P-1, at least 1).
func (o *DepthOracle) Allowed(P int) int {
	if P < o.lastP || o.lhs == nil {
		o.d, o.lhs, o.rhs = 1, big.NewInt(2000), big.NewInt(int64(1000+o.beta))
	}
	o.lastP = P
	// invariant: depth o.d is allowed; lhs = 2000^d, rhs = (1000+beta)^d; depth d+1 is allowed iff lhs <= P*rhs
	for o.d+1 < P {
		t := new(big.Int).Mul(o.rhs, big.NewInt(int64(P)))
		if o.lhs.Cmp(t) > 0 {
			break
		}
		o.d++
		o.lhs.Mul(o.lhs, big.NewInt(2000))
		o.rhs.Mul(o.rhs, big.NewInt(int64(1000+o.beta)))
	}
	return o.d
}

// CheckDepth is the C02 oracle for the current state.
func (s *Inst) CheckDepth() *mc.Failure {
	if s.Beta >= 1000 || len(s.Ref) == 0 {
		return nil
	}
	sh, d := Shape(s.T)
	if !DepthAllowed(d, s.P, s.Beta) {
		return mc.Failf(0, "depth %d exceeds log_{2000/%d}(P=%d)+1 (max allowed %d); tree %s", d, 1000+s.Beta, s.P, MaxAllowedDepth(s.P, s.Beta), sh)
	}
	allowed := MaxAllowedDepth(s.P, s.Beta)
	if s.Stats != nil {
		slack := allowed - d
		if slack < s.Stats.MinSlack {
			s.Stats.MinSlack = slack
		}
		if slack == 0 {
			s.Stats.MaxSlackZero++
		}
	}
	for k := -1; k <= s.Keys; k++ {
		*s.ncmp = 0
		s.T.Get(Elem{K: k})
		if int(*s.ncmp) > allowed+1 {
			return mc.Failf(0, "Get(%d) made %d comparisons, more than allowed depth %d + 1 (P=%d, beta=%d); tree %s", k, *s.ncmp, allowed, s.P, s.Beta, sh)
		}
	}
	return nil
}

// BetaClasses partitions 0..1000 by the only two quantities through which the
// documented algorithm can depend on beta for trees of at most maxSize nodes:
// the depth limit floor(log_{2000/(1000+beta)} n) for n <= maxSize+1 (capped
// at maxSize+1, beyond which it cannot bind) and the delete-side rebuild
// threshold (max*beta+1000)/2000 for max <= maxSize. It returns the smallest
// member of every class. The quick tier explores these representatives (plus
// a regular grid); the thorough tier explores every beta and does not rely on
// this argument.
func BetaClasses(maxSize int) []int {
	seen := map[string]bool{}
	var reps []int
	for b := 0; b <= 1000; b++ {
		var sb strings.Builder
		for n := 1; n <= maxSize+1; n++ {
			d := 0
			if b == 1000 {
				d = maxSize + 1
			} else {
				for DepthAllowed(d+2, n, b) && d <= maxSize { // floor(log_b n) = max d with b^d <= n
					d++
				}
			}
			fmt.Fprintf(&sb, "%d,", d)
		}
		for m := 1; m <= maxSize; m++ {
			fmt.Fprintf(&sb, "%d;", (m*b+1000)/2000)
		}
		if !seen[sb.String()] {
			seen[sb.String()] = true
			reps = append(reps, b)
		}
	}
	return reps
}
