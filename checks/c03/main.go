// C03: stree.Cursor navigation is consistent with key order and tree
// structure. Every BST shape up to a node bound is built in the real tree
// (beta=1000, no rebalancing, keys = in-order ranks inserted in pre-order);
// every (cursor state, move) pair and all bounded move sequences with clones
// are compared with an independent reference cursor.
package main

import (
	"fmt"
	"sync/atomic"

	"verif/lib/streeh"
	"verif/mc"

	"github.com/creachadair/mds/stree"
)

func cmp(a, b int) int { return 3 * (a - b) }

// shapes returns the pre-order key lists of all BSTs on keys lo..hi-1.
func shapes(lo, hi int) [][]int {
	if lo >= hi {
		return [][]int{nil}
	}
	var out [][]int
	for root := lo; root < hi; root++ {
		for _, l := range shapes(lo, root) {
			for _, r := range shapes(root+1, hi) {
				s := append([]int{root}, l...)
				out = append(out, append(s, r...))
			}
		}
	}
	return out
}

// ref is the reference tree: children and parents indexed by key (-1 = none).
type ref struct {
	n                   int
	left, right, parent []int
	root                int
}

func buildRef(pre []int) *ref {
	n := len(pre)
	r := &ref{n: n, left: make([]int, n), right: make([]int, n), parent: make([]int, n), root: -1}
	for i := 0; i < n; i++ {
		r.left[i], r.right[i], r.parent[i] = -1, -1, -1
	}
	for _, k := range pre { // naive BST insertion
		if r.root < 0 {
			r.root = k
			continue
		}
		cur := r.root
		for {
			if k < cur {
				if r.left[cur] < 0 {
					r.left[cur], r.parent[k] = k, cur
					break
				}
				cur = r.left[cur]
			} else {
				if r.right[cur] < 0 {
					r.right[cur], r.parent[k] = k, cur
					break
				}
				cur = r.right[cur]
			}
		}
	}
	return r
}

func (r *ref) min(k int) int {
	for r.left[k] >= 0 {
		k = r.left[k]
	}
	return k
}
func (r *ref) max(k int) int {
	for r.right[k] >= 0 {
		k = r.right[k]
	}
	return k
}

var moves = []string{"Next", "Prev", "Left", "Right", "Up", "Min", "Max"}

// refMove returns the reference position after a move (-1 = invalid).
func (r *ref) move(pos int, m string) int {
	if pos < 0 {
		return -1
	}
	switch m {
	case "Next":
		if pos+1 < r.n {
			return pos + 1
		}
		return -1
	case "Prev":
		return pos - 1
	case "Left":
		return r.left[pos]
	case "Right":
		return r.right[pos]
	case "Up":
		return r.parent[pos]
	case "Min":
		return r.min(pos)
	case "Max":
		return r.max(pos)
	}
	panic("bad move " + m)
}

func doMove(c *stree.Cursor[int], m string) *stree.Cursor[int] {
	switch m {
	case "Next":
		return c.Next()
	case "Prev":
		return c.Prev()
	case "Left":
		return c.Left()
	case "Right":
		return c.Right()
	case "Up":
		return c.Up()
	case "Min":
		return c.Min()
	case "Max":
		return c.Max()
	}
	panic("bad move " + m)
}

// observe compares every predicate and the subtree listing at one position.
func observe(c *stree.Cursor[int], r *ref, pos int, what string) *mc.Failure {
	if c.Valid() != (pos >= 0) {
		return mc.Failf(0, "%s: Valid=%v, reference position %d", what, c.Valid(), pos)
	}
	if pos < 0 {
		if c.Key() != 0 {
			return mc.Failf(0, "%s: invalid cursor Key=%d, want zero", what, c.Key())
		}
		if c.HasNext() || c.HasPrev() || c.HasLeft() || c.HasRight() || c.HasParent() {
			return mc.Failf(0, "%s: invalid cursor reports a neighbour", what)
		}
		n := 0
		c.Inorder(func(int) bool { n++; return true })
		if n != 0 {
			return mc.Failf(0, "%s: invalid cursor Inorder yields %d keys", what, n)
		}
		// Clone of an invalid or nil cursor is harmless too, and invalid
		if cl := c.Clone(); cl.Valid() || cl.Key() != 0 {
			return mc.Failf(0, "%s: the Clone of an invalid cursor is valid (key %d)", what, cl.Key())
		}
		return nil
	}
	if c.Key() != pos {
		return mc.Failf(0, "%s: Key=%d want %d", what, c.Key(), pos)
	}
	type pr struct {
		name      string
		got, want bool
	}
	for _, p := range []pr{
		{"HasNext", c.HasNext(), pos+1 < r.n}, {"HasPrev", c.HasPrev(), pos > 0},
		{"HasLeft", c.HasLeft(), r.left[pos] >= 0}, {"HasRight", c.HasRight(), r.right[pos] >= 0},
		{"HasParent", c.HasParent(), r.parent[pos] >= 0},
	} {
		if p.got != p.want {
			return mc.Failf(0, "%s at key %d: %s=%v want %v", what, pos, p.name, p.got, p.want)
		}
	}
	lo, hi := r.min(pos), r.max(pos)
	var got []int
	moved := -1
	c.Inorder(func(k int) bool {
		// Inorder is a listing, not a move: the cursor stays where it is while it runs
		if moved < 0 && (!c.Valid() || c.Key() != pos) {
			moved = k
		}
		got = append(got, k)
		return len(got) < 1<<16 // bounded: an iteration that never ends is reported, not accumulated
	})
	if moved >= 0 {
		return mc.Failf(0, "%s at key %d: while Inorder was visiting %d the cursor itself was no longer at %d", what, pos, moved, pos)
	}
	if len(got) != hi-lo+1 {
		return mc.Failf(0, "%s at key %d: Inorder=%v want %d..%d", what, pos, got, lo, hi)
	}
	for i, k := range got {
		if k != lo+i {
			return mc.Failf(0, "%s at key %d: Inorder=%v want %d..%d", what, pos, got, lo, hi)
		}
	}
	for stop := 1; stop <= len(got); stop++ {
		n := 0
		c.Inorder(func(int) bool { n++; return n < stop })
		if n != stop {
			return mc.Failf(0, "%s at key %d: Inorder did not stop after %d (visited %d)", what, pos, stop, n)
		}
	}
	return nil
}

func buildTree(pre []int) *stree.Tree[int] {
	t := stree.New(1000, cmp)
	for _, k := range pre {
		t.Add(k)
	}
	return t
}

// start returns a fresh cursor at a start position: -2 = nil cursor from an
// absent key, -1 = Root(), k >= 0 = Cursor(k).
func start(t *stree.Tree[int], r *ref, s int) (*stree.Cursor[int], int) {
	switch {
	case s == -2:
		return t.Cursor(r.n + 5), -1
	case s == -1:
		return t.Root(), r.root
	default:
		return t.Cursor(s), s
	}
}

type trace struct {
	Pre   []int    `json:"preorder"`
	Start int      `json:"start"`
	Moves []string `json:"moves"`
}

// checkPairs: every (state, move) pair of one tree.
func checkPairs(pre []int) *mc.Failure {
	return mc.GuardT("cursor-pairs", trace{Pre: pre}, func() *mc.Failure { return checkPairs1(pre) })
}

func checkPairs1(pre []int) *mc.Failure {
	t, r := buildTree(pre), buildRef(pre)
	for _, k := range []int{-1, r.n, r.n + 1} {
		if c := t.Cursor(k); c.Valid() || c != nil {
			return mc.Failf(0, "Cursor(absent %d) is not nil/invalid", k)
		}
	}
	if len(pre) == 0 {
		if t.Root().Valid() {
			return mc.Failf(0, "Root of an empty tree is valid")
		}
	}
	for s := -2; s < r.n; s++ {
		c, pos := start(t, r, s)
		if f := observe(c, r, pos, fmt.Sprintf("start %d", s)); f != nil {
			return f
		}
		for _, m := range moves {
			c, pos := start(t, r, s)
			ret := doMove(c, m)
			if ret != c {
				return mc.Failf(0, "start %d: %s did not return its receiver", s, m)
			}
			np := r.move(pos, m)
			if f := observe(c, r, np, fmt.Sprintf("start %d after %s", s, m)); f != nil {
				return f
			}
			// structural claims: through Left everything is smaller, through Right larger
			if np >= 0 && pos >= 0 && (m == "Left" && np >= pos || m == "Right" && np <= pos) {
				return mc.Failf(0, "start %d: %s moved from %d to %d", s, m, pos, np)
			}
		}
		// An invalidated cursor stays a harmless no-op for every move.
		c, pos = start(t, r, s)
		for pos >= 0 {
			c.Next()
			pos = r.move(pos, "Next")
		}
		for _, m := range moves {
			doMove(c, m)
			if f := observe(c, r, -1, fmt.Sprintf("start %d run off the end, then %s", s, m)); f != nil {
				return f
			}
		}
	}
	return nil
}

// checkSeq: one move sequence with clones taken at every prefix.
func checkSeq(tr trace) *mc.Failure {
	return mc.GuardT("cursor-seqs", tr, func() *mc.Failure { return checkSeq1(tr) })
}

func checkSeq1(tr trace) *mc.Failure {
	t, r := buildTree(tr.Pre), buildRef(tr.Pre)
	c, pos := start(t, r, tr.Start)
	type held struct {
		c   *stree.Cursor[int]
		pos int
		at  int
	}
	var still []held
	for i := 0; i <= len(tr.Moves); i++ {
		// clone A stays put and is checked at the end; clone B is moved about
		// at once and must not disturb the original.
		a, b := c.Clone(), c.Clone()
		still = append(still, held{a, pos, i})
		bp := pos
		for _, m := range []string{"Up", "Right", "Min", "Next", "Max", "Prev", "Left"} {
			doMove(b, m)
			bp = r.move(bp, m)
			if b.Valid() != (bp >= 0) || (bp >= 0 && b.Key() != bp) {
				return mc.Failf(i, "clone taken after %d moves, moved by %s: at %d valid=%v, want %d", i, m, b.Key(), b.Valid(), bp)
			}
		}
		if f := observe(c, r, pos, fmt.Sprintf("original after %d moves and moving a clone", i)); f != nil {
			f.Step = i
			return f
		}
		if i == len(tr.Moves) {
			break
		}
		doMove(c, tr.Moves[i])
		pos = r.move(pos, tr.Moves[i])
		if c.Valid() != (pos >= 0) || (pos >= 0 && c.Key() != pos) {
			return mc.Failf(i, "after moves %v: at %d valid=%v, want %d", tr.Moves[:i+1], c.Key(), c.Valid(), pos)
		}
	}
	// Full walks use the whole path (ancestors): original forwards, each
	// resting clone forwards and (a second clone of it) backwards.
	walk := func(c *stree.Cursor[int], pos int, dir string, what string) *mc.Failure {
		for pos >= 0 {
			if !c.Valid() || c.Key() != pos {
				return mc.Failf(len(tr.Moves), "%s: %s walk at %d (valid=%v), want %d", what, dir, c.Key(), c.Valid(), pos)
			}
			doMove(c, dir)
			pos = r.move(pos, dir)
		}
		if c.Valid() {
			return mc.Failf(len(tr.Moves), "%s: %s walk still valid at %d past the end", what, dir, c.Key())
		}
		return nil
	}
	for _, h := range still {
		if f := observe(h.c, r, h.pos, fmt.Sprintf("clone taken after %d moves, at the end", h.at)); f != nil {
			f.Step = len(tr.Moves)
			return f
		}
		back := h.c.Clone()
		if f := walk(h.c, h.pos, "Next", fmt.Sprintf("clone taken after %d moves", h.at)); f != nil {
			return f
		}
		if f := walk(back, h.pos, "Prev", fmt.Sprintf("clone taken after %d moves", h.at)); f != nil {
			return f
		}
	}
	return walk(c, pos, "Next", "original")
}

func seqs(n int) [][]string {
	out := [][]string{{}}
	lo := 0
	for l := 1; l <= n; l++ {
		hi := len(out)
		for _, p := range out[lo:hi] {
			for _, m := range moves {
				out = append(out, append(append([]string{}, p...), m))
			}
		}
		lo = hi
	}
	return out
}

func main() {
	mc.Main("C03",
		mc.Harness{
			Name: "cursor-pairs",
			Explore: func(r *mc.Run) {
				maxN := mc.Pick(r, 8, 10)
				var all [][]int
				for n := 0; n <= maxN; n++ {
					all = append(all, shapes(0, n)...)
				}
				var pairs, skew int64
				mc.ParallelFor(len(all), r.Workers, func(i int) {
					if f := checkPairs(all[i]); f != nil {
						r.Violation(mc.Case{Harness: "cursor-pairs", Trace: mc.J(trace{Pre: all[i]}), Msg: f.Msg, Step: 0})
					}
					n := int64(len(all[i]))
					atomic.AddInt64(&pairs, (n+2)*int64(len(moves)+1))
					// skewed: some node has exactly one child (walk-up loops matter)
					rf := buildRef(all[i])
					for k := 0; k < rf.n; k++ {
						if (rf.left[k] < 0) != (rf.right[k] < 0) {
							atomic.AddInt64(&skew, 1)
							break
						}
					}
				})
				r.AddEval(int64(len(all)), pairs, pairs, skew)
				r.Bound("max_nodes", maxN)
				r.Bound("shapes", len(all))
				r.Rule("every BST shape up to the node bound x every cursor start (nil, Root, Cursor(k)) x every move, all predicates and subtree listings before and after; non-trivial = shapes with a one-child node")
				r.Sample(trace{Pre: []int{3, 1, 0, 2, 4}, Start: 2, Moves: []string{"Next"}})
			},
			Replay: func(c mc.Case) *mc.Failure {
				var tr trace
				if err := mc.Unmarshal(c.Trace, &tr); err != nil {
					return mc.Failf(-1, "bad trace: %v", err)
				}
				return checkPairs(tr.Pre)
			},
		},
		mc.Harness{
			Name: "cursor-seqs",
			Explore: func(r *mc.Run) {
				maxN, L := mc.Pick(r, 6, 7), mc.Pick(r, 4, 5)
				var all [][]int
				for n := 1; n <= maxN; n++ {
					all = append(all, shapes(0, n)...)
				}
				sq := seqs(L)
				var runs, withShorten int64
				mc.ParallelFor(len(all), r.Workers, func(i int) {
					for s := -1; s < len(all[i]); s++ {
						for _, ms := range sq {
							tr := trace{Pre: all[i], Start: s, Moves: ms}
							if f := checkSeq(tr); f != nil {
								r.Violation(mc.Case{Harness: "cursor-seqs", Trace: mc.J(tr), Msg: f.Msg, Step: f.Step})
							}
							atomic.AddInt64(&runs, 1)
							for _, m := range ms {
								if m == "Up" {
									atomic.AddInt64(&withShorten, 1)
									break
								}
							}
						}
					}
				})
				r.AddEval(int64(len(all)), runs*int64(L), runs, withShorten)
				r.Bound("max_nodes", maxN)
				r.Bound("max_moves", L)
				r.Bound("sequences_per_start", len(sq))
				r.Rule("every shape up to the node bound x every start x every move sequence up to the length bound; two clones taken at every prefix (one rests, one is moved about), all compared with independent reference positions and by full Next/Prev walks; non-trivial = sequences containing a path-shortening move")
				r.Sample(trace{Pre: []int{3, 1, 0, 2, 5, 4, 6}, Start: 0, Moves: []string{"Up", "Right"}})
			},
			Replay: func(c mc.Case) *mc.Failure {
				var tr trace
				if err := mc.Unmarshal(c.Trace, &tr); err != nil {
					return mc.Failf(-1, "bad trace: %v", err)
				}
				return checkSeq(tr)
			},
		},
		streeh.CursorLongHarness(),
	)
}
