// C19: distinct.Counter is exact below capacity, bounded, and unbiased above
// it. E2 over the environment: the random source is injected through an
// overlay-added constructor and every behaviour-relevant outcome of every
// random word is enumerated on the real Add; probabilities are propagated
// exactly (math/big.Rat) over merged states (buffer contents, threshold).
package main

import (
	"fmt"
	"math"
	"math/big"
	"math/bits"
	"math/rand/v2"
	"os"
	"runtime"
	"sort"
	"strings"
	"sync"
	"sync/atomic"
	"time"

	"verif/mc"

	"github.com/creachadair/mds/distinct"
)

// script is a rand.Source that replays scripted words and notes when the
// code asks for more than were scripted.
type script struct {
	words []uint64
	used  int
	short bool
}

func (s *script) Uint64() uint64 {
	if s.used < len(s.words) {
		w := s.words[s.used]
		s.used++
		return w
	}
	s.short = true
	s.used++
	return 0
}

type state struct {
	buf []int // sorted
	p   uint64
}

func (s state) key() string { return fmt.Sprintf("%v/%x", s.buf, s.p) }
func (s state) k() int      { return bits.LeadingZeros64(s.p) }

type outcome struct {
	to state
	w  *big.Float
}

type cfg struct {
	Size      int    `json:"size"`
	Values    int    `json:"values"`
	MaxLen    int    `json:"max_stream_len"`
	MaxRepeat int    `json:"max_extra_words"`
	Order     string `json:"halving_visit_order"`
}

// Probabilities are dyadic rationals; they are held exactly in big.Float
// values of 2048 bits of mantissa (far more than the deepest product needs;
// every operation is checked to have been exact through Acc where it matters).
const prec = 2048

func fint(n int64) *big.Float { return new(big.Float).SetPrec(prec).SetInt64(n) }
func pow2(e int) *big.Float   { return new(big.Float).SetPrec(prec).SetMantExp(big.NewFloat(1), e) }

// thresholdChoices lists the behaviour-relevant values of a word used for the
// keep test against threshold p = 2^(64-k)-1: representatives of [0,p-1),
// {p-1}, {p}, (p,2^64). The keep probability p/2^64 is 2^-k up to 2^-64; the
// check works with the ideal 2^-k ("up to the 2^-64 threshold quantisation"),
// so the two boundary words carry weight 0 and are executed only to see that
// they behave like their side of the threshold.
func thresholdChoices(p uint64) ([]uint64, []*big.Float) {
	k := bits.LeadingZeros64(p)
	below := pow2(-k)
	above := new(big.Float).Sub(fint(1), below)
	zero := new(big.Float)
	if p == 0 {
		return []uint64{0, math.MaxUint64}, []*big.Float{zero, fint(1)}
	}
	return []uint64{0, p - 1, p, math.MaxUint64}, []*big.Float{below, zero, zero, above}
}

// thresholdChoicesProbed enumerates the word used for the keep test against
// threshold p = 2^(64-k)-1. Rejected words (>= p) must all behave alike.
// Admitted words (< p) have their top k bits zero and their low 64-k bits
// uniform; an implementation may legitimately go on using those low bits (as
// the first coins of a pass, say), so which of them influence the outcome is
// probed and every pattern of the influential ones is enumerated with weight
// 2^-k * 2^-|I|.
func thresholdChoicesProbed(c *cfg, st state, v int, prefix []uint64) ([]uint64, []*big.Float, *unowned) {
	p := st.p
	k := bits.LeadingZeros64(p)
	below := pow2(-k)
	above := new(big.Float).Sub(fint(1), below)
	sig := func(w uint64) string { return signature(c, st, v, append(append([]uint64{}, prefix...), w)) }
	if p == 0 {
		return []uint64{math.MaxUint64}, []*big.Float{fint(1)}, nil
	}
	rej := []uint64{p, math.MaxUint64, 1 << 63, 1<<63 | 0x2AAAAAAAAAAAAAAA, p | 0x5555555555555555}
	ref := sig(rej[0])
	for _, w := range rej[1:] {
		if w >= p && sig(w) != ref {
			return nil, nil, &unowned{fmt.Sprintf("the keep test of Add(%d) from %s treats the rejected words %x and %x differently", v, st.key(), rej[0], w)}
		}
	}
	low := uint(64 - k) // number of uniform low bits of an admitted word
	mask := uint64(1)<<low - 1
	var inf []uint
	for b := uint(0); b < low; b++ {
		for _, base := range []uint64{0, mask & 0xAAAAAAAAAAAAAAAA, mask & 0x5555555555555555} {
			w0, w1 := base, base^(1<<b)
			if w0 >= p || w1 >= p {
				continue
			}
			if sig(w0) != sig(w1) {
				inf = append(inf, b)
				break
			}
		}
	}
	if len(inf) > 10 {
		return nil, nil, &unowned{fmt.Sprintf("the word of the keep test influences the outcome of Add(%d) from %s through %d of its low bits", v, st.key(), len(inf))}
	}
	var infMask uint64
	for _, b := range inf {
		infMask |= 1 << b
	}
	// other low bits: all zero for even patterns, all one (but one, to stay below p) for odd ones
	others := mask &^ infMask
	if others != 0 {
		others &^= others & -others // clear its lowest set bit
	}
	ws := []uint64{rej[0]}
	rs := []*big.Float{above}
	wgt := new(big.Float).Mul(below, pow2(-len(inf)))
	for pat := uint64(0); pat < 1<<uint(len(inf)); pat++ {
		var w uint64
		for i, b := range inf {
			if pat&(1<<uint(i)) != 0 {
				w |= 1 << b
			}
		}
		if pat%2 == 1 {
			w |= others
		}
		if w >= p {
			w &^= 1 << (low - 1)
		}
		ws = append(ws, w)
		rs = append(rs, wgt)
	}
	return ws, rs, nil
}

// unowned is returned when the harness cannot establish how the code uses a
// random word (so exact weights cannot be assigned). It is never a violation:
// the check then reports exhaustive:false for that configuration.
type unowned struct{ why string }

// signature runs Add(v) from st with the scripted words and returns a string
// identifying what happened (whether more entropy was requested and the
// resulting state).
func signature(c *cfg, st state, v int, words []uint64) string {
	src := &script{words: words}
	ctr := newCounter(c.Size, src)
	setState(ctr, st.buf, st.p)
	ctr.Add(v)
	buf, p := getState(ctr)
	sort.Ints(buf)
	return fmt.Sprintf("%v|%d|%v/%x", src.short, src.used, buf, p)
}

// influence determines which bits of the random word at position len(prefix)
// can change the outcome of Add(v) from st: a bit is influential if flipping
// it changes the outcome from one of four base words. (The code is expected to
// spend one bit per buffered element; which bits is left to it.)
func influence(c *cfg, st state, v int, prefix []uint64) []uint {
	var bitsUsed []uint
	bases := []uint64{0, ^uint64(0), 0xAAAAAAAAAAAAAAAA, 0x5555555555555555}
	for b := uint(0); b < 64; b++ {
		for _, base := range bases {
			w0 := append(append([]uint64{}, prefix...), base)
			w1 := append(append([]uint64{}, prefix...), base^(1<<b))
			if signature(c, st, v, w0) != signature(c, st, v, w1) {
				bitsUsed = append(bitsUsed, b)
				break
			}
		}
	}
	return bitsUsed
}

var (
	infMu    sync.Mutex
	infCache = map[string][]uint{}
)

// cachedInfluence probes once per (size, order, number of buffered elements):
// which bits a pass consumes depends on how many elements it visits.
func cachedInfluence(c *cfg, st state, v int, prefix []uint64, nb int) []uint {
	key := fmt.Sprintf("%d/%s/%d", c.Size, c.Order, nb)
	infMu.Lock()
	got, ok := infCache[key]
	infMu.Unlock()
	if ok {
		return got
	}
	got = influence(c, st, v, prefix)
	infMu.Lock()
	infCache[key] = got
	infMu.Unlock()
	return got
}

// halvingChoices enumerates every pattern of the influential bits (uniform
// weights); the other bits are all zero in half of the words and all one in
// the other half, so a dependence the probe missed shows up as a lost or
// gained outcome rather than silently.
func halvingChoices(bitsUsed []uint) ([]uint64, []*big.Float) {
	var ws []uint64
	var rs []*big.Float
	w := pow2(-len(bitsUsed))
	var mask uint64
	for _, b := range bitsUsed {
		mask |= 1 << b
	}
	for pat := uint64(0); pat < 1<<uint(len(bitsUsed)); pat++ {
		var word uint64
		for i, b := range bitsUsed {
			if pat&(1<<uint(i)) != 0 {
				word |= 1 << b
			}
		}
		if pat%2 == 1 {
			word |= ^mask
		}
		ws = append(ws, word)
		rs = append(rs, w)
	}
	return ws, rs
}

// transitions enumerates every outcome of Add(v) from st on the real code.
// truncated is the probability mass cut off by the bound on extra words.
func transitions(c *cfg, st state, v int) (outs []outcome, truncated *big.Float, f *mc.Failure, notOwned *unowned) {
	truncated = new(big.Float)
	merged := map[string]*outcome{}
	// A halving pass visits the buffer as it is after v was inserted; a
	// repeated pass sees the same buffer (everything was kept).
	nb := len(st.buf)
	if !has(st.buf, v) {
		nb++
	}
	var own *unowned
	var oddBits string
	var runs int64
	_ = oddBits
	var rec func(words []uint64, weight *big.Float, depth int)
	rec = func(words []uint64, weight *big.Float, depth int) {
		if f != nil || own != nil {
			return
		}
		src := &script{words: words}
		ctr := newCounter(c.Size, src)
		setState(ctr, st.buf, st.p)
		done := mc.InFlight(func() mc.Case {
			return mc.Case{Harness: "cvm-reset", Trace: mc.J(tcase{Cfg: *c, Buf: st.buf, P: st.p}), Msg: fmt.Sprintf("Add(%d) from state %s with scripted random words %x", v, st.key(), words)}
		})
		ctr.Add(v)
		done()
		if src.short {
			// The code wants one more random word: enumerate it.
			pos := len(words)
			var ws []uint64
			var rs []*big.Float
			if pos == 0 && st.p < math.MaxUint64 {
				var o *unowned
				ws, rs, o = thresholdChoicesProbed(c, st, v, words)
				if o != nil {
					own = o
					return
				}
			} else if pos == 0 && nb < c.Size {
				// Exact regime and no pass is due, yet the code draws a random
				// word: whatever it does with it, the outcome must not depend on
				// it ("Count equals the exact number", without a probability).
				// The extreme words are the ones a threshold test can single out.
				ws = []uint64{0, 1, math.MaxUint64 - 1, math.MaxUint64}
				q := new(big.Float).SetPrec(prec).Quo(fint(1), fint(4))
				rs = []*big.Float{q, q, q, q}
			} else {
				passes := pos
				if st.p < math.MaxUint64 {
					passes--
				}
				// The branch in which every pass so far kept everything has weight
				// 2^-(nb*passes) while 1/p has grown to 2^(k+passes): bound what
				// it can still contribute to any E[1{a buffered}/p'] (geometric
				// tail, ratio 2^(1-nb) <= 1/2) and stop once that is negligible.
				bound := new(big.Float).Mul(weight, invP(st.k()+passes+2))
				if bound.Cmp(negligible) < 0 || st.k()+passes >= 60 || passes > c.MaxRepeat {
					truncated.Add(truncated, bound)
					return
				}
				inf := cachedInfluence(c, st, v, words, nb*100+min(pos, 1))
				if len(inf) > 10 {
					own = &unowned{fmt.Sprintf("a random word of a halving pass influences the outcome through %d bits (Add(%d) from %s)", len(inf), v, st.key())}
					return
				}
				if len(inf) != nb && own == nil {
					// one fair bit per buffered element is what the algorithm needs;
					// anything else is enumerated all the same, uniformly
					oddBits = fmt.Sprintf("%d influential bits for %d buffered elements", len(inf), nb)
				}
				ws, rs = halvingChoices(inf)
			}
			runs += int64(len(ws))
			if runs > 500000 {
				own = &unowned{fmt.Sprintf("more than 500000 executions for one transition (Add(%d) from %s)", v, st.key())}
				return
			}
			for i := range ws {
				rec(append(append([]uint64{}, words...), ws[i]), new(big.Float).Mul(weight, rs[i]), depth+1)
			}
			return
		}
		if src.used != len(words) {
			f = mc.Failf(0, "Add(%d) from %s used %d of %d scripted random words: nondeterministic entropy use", v, st.key(), src.used, len(words))
			return
		}
		buf, p := getState(ctr)
		sort.Ints(buf)
		to := state{buf, p}
		// consistency of the real observers with the state
		if ctr.Len() != len(buf) {
			f = mc.Failf(0, "Len=%d but the buffer holds %v", ctr.Len(), buf)
			return
		}
		if want := uint64(len(buf)) << uint(to.k()); ctr.Count() != want {
			f = mc.Failf(0, "Count=%d, want Len*2^k = %d*2^%d (state %s)", ctr.Count(), len(buf), to.k(), to.key())
			return
		}
		if o, ok := merged[to.key()]; ok {
			o.w.Add(o.w, weight)
		} else {
			merged[to.key()] = &outcome{to, new(big.Float).Set(weight)}
		}
	}
	rec(nil, fint(1), 0)
	keys := make([]string, 0, len(merged))
	for k := range merged {
		keys = append(keys, k)
	}
	sort.Strings(keys)
	for _, k := range keys {
		outs = append(outs, *merged[k])
	}
	return outs, truncated, f, own
}

// negligible: contributions below 2^-36 are dropped and accounted as slack.
var negligible = pow2(-36)

// close compares exact rationals: equal up to the accounted slack (truncated
// geometric tails and pruned states) plus 2^-24 absolute (real biases are of the order of 2^-5).
func close(a, b *big.Float, slack *big.Float) bool {
	d := new(big.Float).Sub(a, b)
	d.Abs(d)
	lim := pow2(-24)
	lim.Add(lim, slack)
	return d.Cmp(lim) <= 0
}

func has(buf []int, v int) bool {
	for _, x := range buf {
		if x == v {
			return true
		}
	}
	return false
}

func invP(k int) *big.Float { return pow2(k) }

// stepUnowned marks a "failure" that only says the harness could not own the
// randomness; it is reported as exhaustive:false, never as a violation.
const stepUnowned = -99

func isUnowned(f *mc.Failure) bool { return f != nil && f.Step == stepUnowned }

// explorer carries the memoised transition function of one configuration.
type explorer struct {
	c       *cfg
	workers int
	gaveUp  bool
	mu      sync.Mutex
	memo    map[string][]outcome
	trunc   map[string]*big.Float
	fail    *mc.Failure
	// coverage
	states      map[string]bool
	transitions int64
	evictions   int64
	overshoot   int64
}

type tcase struct {
	Cfg    cfg   `json:"cfg"`
	Stream []int `json:"stream"`
	// for Reset cases: the reachable state Reset is called in
	Buf []int  `json:"buf,omitempty"`
	P   uint64 `json:"p,omitempty"`
}

func (e *explorer) step(st state, v int) ([]outcome, *big.Float, *mc.Failure) {
	key := fmt.Sprintf("%s+%d", st.key(), v)
	e.mu.Lock()
	if o, ok := e.memo[key]; ok {
		t := e.trunc[key]
		e.mu.Unlock()
		return o, t, nil
	}
	e.mu.Unlock()
	outs, tr, f, own := transitions(e.c, st, v)
	if own != nil {
		return nil, nil, &mc.Failure{Step: stepUnowned, Msg: own.why}
	}
	if f != nil {
		return nil, nil, f
	}
	// Per-transition oracles.
	total := new(big.Float)
	for _, o := range outs {
		total.Add(total, o.w)
		if len(o.to.buf) > e.c.Size {
			return nil, nil, mc.Failf(0, "Add(%d) from state %s reaches Len=%d > buffer size %d (buffer %v)", v, st.key(), len(o.to.buf), e.c.Size, o.to.buf)
		}
		if o.to.k() < st.k() {
			return nil, nil, mc.Failf(0, "Add(%d) from state %s: the power of two in Count decreased (k %d -> %d) without Reset", v, st.key(), st.k(), o.to.k())
		}
	}
	if total.Cmp(fint(1)) > 0 || new(big.Float).Sub(fint(1), total).Cmp(negligible) > 0 && tr.Sign() == 0 {
		return nil, nil, mc.Failf(0, "outcome weights of Add(%d) from %s sum to %s (harness error)", v, st.key(), total.Text('f', 20))
	}
	// Martingale: E[1{a in B'} * 2^k'] = 1{a in B} * 2^k for a != v, and = 1 for a = v.
	slack := tr // value bound of the truncated geometric tail
	for a := 0; a < e.c.Values; a++ {
		exp := new(big.Float)
		for _, o := range outs {
			if has(o.to.buf, a) {
				exp.Add(exp, new(big.Float).Mul(o.w, invP(o.to.k())))
			}
		}
		want := new(big.Float)
		if a == v {
			want.SetInt64(1)
		} else if has(st.buf, a) {
			want = invP(st.k())
		}
		if !close(exp, want, slack) {
			return nil, nil, mc.Failf(0, "Add(%d) from state %s is biased: E[1{%d buffered}/p'] = %s, want %s", v, st.key(), a, exp.Text('f', 12), want.Text('f', 12))
		}
	}
	e.mu.Lock()
	e.memo[key] = outs
	e.trunc[key] = tr
	e.transitions += int64(len(outs))
	for _, o := range outs {
		e.states[o.to.key()] = true
		if o.to.p != st.p {
			e.evictions++
		}
	}
	e.mu.Unlock()
	return outs, tr, nil
}

type ent struct {
	st state
	w  *big.Float
}

// node is the exact distribution after a stream prefix.
type node struct {
	stream []int
	seen   map[int]bool
	dist   map[string]*ent
	lost   *big.Float // bound on what truncated tails and pruned states could add to E[Count]
}

func rootNode() *node {
	init := state{nil, math.MaxUint64}
	return &node{seen: map[int]bool{}, dist: map[string]*ent{init.key(): {init, fint(1)}}, lost: new(big.Float)}
}

// extend propagates the distribution over one more Add(v) and checks the
// oracles that concern the new prefix.
func (e *explorer) extend(n *node, v int) (*node, *mc.Failure) {
	i := len(n.stream)
	out := &node{stream: append(append([]int(nil), n.stream...), v), seen: map[int]bool{v: true}, dist: map[string]*ent{}, lost: new(big.Float).Set(n.lost)}
	for k := range n.seen {
		out.seen[k] = true
	}
	// Compute the transitions this step needs that are not memoised yet, in parallel.
	var missing []state
	e.mu.Lock()
	for _, en := range n.dist {
		if _, ok := e.memo[fmt.Sprintf("%s+%d", en.st.key(), v)]; !ok {
			missing = append(missing, en.st)
		}
	}
	e.mu.Unlock()
	if len(missing) > 1 {
		mc.ParallelFor(len(missing), e.workers, func(k int) { e.step(missing[k], v) })
	}
	for _, en := range n.dist {
		outs, tr, f := e.step(en.st, v)
		if isUnowned(f) {
			return nil, f
		}
		if f != nil {
			f.Step = i
			return nil, f
		}
		out.lost.Add(out.lost, new(big.Float).Mul(new(big.Float).Mul(en.w, tr), fint(int64(e.c.Size+1+e.c.Values))))
		enf, _ := en.w.Float64()
		for _, o := range outs {
			// Cheap pre-filter in floating point (conservative by a factor of 4):
			// an outcome that cannot matter is accounted as slack without
			// exact arithmetic.
			of, _ := o.w.Float64()
			if est := enf * of * (float64(len(o.to.buf))*math.Ldexp(1, o.to.k()) + float64(e.c.Values)); est*4 < 0x1p-36 {
				out.lost.Add(out.lost, new(big.Float).SetFloat64(est*4+1e-300))
				continue
			}
			w := new(big.Float).Mul(en.w, o.w)
			if x, ok := out.dist[o.to.key()]; ok {
				x.w.Add(x.w, w)
			} else {
				out.dist[o.to.key()] = &ent{o.to, w}
			}
		}
	}
	// Prune states whose possible contribution to E[Count] is negligible
	// (their conditional expectation of the final Count is at most Len*2^k
	// plus one per value still to come); account it as slack.
	for key, en := range out.dist {
		val := new(big.Float).Mul(en.w, new(big.Float).Add(new(big.Float).Mul(fint(int64(len(en.st.buf))), invP(en.st.k())), fint(int64(e.c.Values))))
		if val.Cmp(negligible) < 0 || en.st.k() >= 60 {
			out.lost.Add(out.lost, val)
			delete(out.dist, key)
		}
	}
	// exact regime: fewer distinct values than the buffer size
	if len(out.seen) < e.c.Size {
		for _, en := range out.dist {
			if en.st.p != math.MaxUint64 || len(en.st.buf) != len(out.seen) {
				return nil, mc.Failf(i, "after %v (%d distinct values, buffer size %d) the counter can be in state %s: Count is not exact", out.stream, len(out.seen), e.c.Size, en.st.key())
			}
		}
	}
	// E[Count] = true number of distinct values.
	exp := new(big.Float)
	for _, en := range out.dist {
		cnt := new(big.Float).Mul(fint(int64(len(en.st.buf))), invP(en.st.k()))
		exp.Add(exp, new(big.Float).Mul(en.w, cnt))
	}
	if want := fint(int64(len(out.seen))); !close(exp, want, out.lost) {
		return nil, mc.Failf(i+1, "stream %v (buffer size %d): E[Count] = %s exactly, true distinct count %d", out.stream, e.c.Size, exp.Text('f', 12), len(out.seen))
	}
	return out, nil
}

// checkStream replays one stream from the start (used for replay).
func (e *explorer) checkStream(stream []int) *mc.Failure {
	n := rootNode()
	for _, v := range stream {
		nx, f := e.extend(n, v)
		if isUnowned(f) {
			return nil
		}
		if f != nil {
			return f
		}
		n = nx
	}
	return nil
}

// walk explores every canonical extension of n up to the length bound,
// sharing the distribution of the common prefix. It returns the number of
// streams visited and how many reached the buffer size.
func (e *explorer) walk(r *mc.Run, n *node, streams, above *int64) {
	used := len(n.seen)
	if len(n.stream) == e.c.MaxLen {
		return
	}
	for v := 0; v <= used && v < e.c.Values; v++ {
		if r.Expired() {
			r.NotExhaustive("tier budget reached")
			return
		}
		nx, f := e.extend(n, v)
		atomic.AddInt64(streams, 1)
		if isUnowned(f) {
			e.giveUp(r, f.Msg)
			return
		}
		if f != nil {
			r.Violation(mc.Case{Harness: "cvm", Trace: mc.J(tcase{Cfg: *e.c, Stream: append(append([]int(nil), n.stream...), v)}), Msg: f.Msg, Step: f.Step})
			continue // extensions of a failing prefix fail for the same reason
		}
		if len(nx.seen) >= e.c.Size {
			atomic.AddInt64(above, 1)
		}
		e.walk(r, nx, streams, above)
	}
}

// resetCheck: from every reachable state Reset restores the initial state.
func (e *explorer) resetCheck() *resetFailure {
	e.mu.Lock()
	keys := make([]string, 0, len(e.states))
	for k := range e.states {
		keys = append(keys, k)
	}
	e.mu.Unlock()
	sort.Strings(keys)
	for _, k := range keys {
		var st state
		parts := strings.SplitN(k, "/", 2)
		fmt.Sscanf(parts[1], "%x", &st.p)
		for _, f := range strings.Fields(strings.Trim(parts[0], "[]")) {
			var x int
			fmt.Sscan(f, &x)
			st.buf = append(st.buf, x)
		}
		if f := resetFrom(e.c.Size, st); f != nil {
			return &resetFailure{f, st}
		}
	}
	return nil
}

type resetFailure struct {
	f  *mc.Failure
	st state
}

func resetFrom(size int, st state) *mc.Failure {
	ctr := newCounter(size, &script{})
	setState(ctr, st.buf, st.p)
	ctr.Reset()
	buf, p := getState(ctr)
	if len(buf) != 0 || p != math.MaxUint64 || ctr.Count() != 0 || ctr.Len() != 0 {
		return mc.Failf(0, "Reset from state %s leaves buffer %v, threshold %x: not the exact regime of a fresh counter", st.key(), buf, p)
	}
	// and the exact regime really is restored
	ctr.Add(1)
	ctr.Add(1)
	if ctr.Count() != 1 {
		return mc.Failf(0, "after Reset from state %s, adding one value twice gives Count=%d", st.key(), ctr.Count())
	}
	return nil
}

// giveUp records (once) that this configuration could not be decided.
func (e *explorer) giveUp(r *mc.Run, why string) {
	e.mu.Lock()
	first := !e.gaveUp
	e.gaveUp = true
	e.mu.Unlock()
	if first {
		r.NotExhaustive(fmt.Sprintf("size %d, order %s: the harness cannot assign exact weights: %s", e.c.Size, e.c.Order, why))
	}
}

func newExplorer(c *cfg) *explorer {
	setOrder(c.Order)
	return &explorer{c: c, workers: runtime.NumCPU(), memo: map[string][]outcome{}, trunc: map[string]*big.Float{}, states: map[string]bool{}}
}

// canonical streams: first occurrences of values appear in increasing order
// (values are interchangeable: the code only tests them for equality).
func streams(values, maxLen int) [][]int {
	var out [][]int
	var rec func(cur []int, used int)
	rec = func(cur []int, used int) {
		out = append(out, append([]int(nil), cur...))
		if len(cur) == maxLen {
			return
		}
		for v := 0; v <= used && v < values; v++ {
			nu := used
			if v == used {
				nu++
			}
			rec(append(cur, v), nu)
		}
	}
	rec(nil, 0)
	return out
}

// ---- one fair coin per element, for buffers larger than a word ----
//
// The exact analysis above is limited to small buffers (it enumerates all
// coin patterns). For large buffers a necessary structural condition is
// checked instead, deterministically: in a halving pass over n elements every
// element must own one coin - one bit of the random words whose value alone
// decides whether that element survives - and no two elements may share one.
// With all-zero words nothing survives; flipping a single bit to one must let
// exactly one element (or none, for an unused bit) survive.

type coinCase struct {
	N     int    `json:"buffer_size"`
	Order string `json:"halving_visit_order"`
}

func checkCoins(cc coinCase) *mc.Failure {
	setOrder(cc.Order)
	words := (cc.N+63)/64 + 1
	buf := make([]int, cc.N-1)
	for i := range buf {
		buf[i] = i
	}
	run := func(w []uint64) ([]int, uint64) {
		src := &script{words: w}
		ctr := newCounter(cc.N, src)
		setState(ctr, buf, math.MaxUint64)
		ctr.Add(cc.N - 1) // fills the buffer: one halving pass over N elements
		got, p := getState(ctr)
		sort.Ints(got)
		return got, p
	}
	zero := make([]uint64, words)
	if got, p := run(zero); len(got) != 0 || p != math.MaxUint64>>1 {
		return mc.Failf(0, "buffer of %d: with all coins 'drop' the pass leaves %v, threshold %x (want nothing, %x)", cc.N, got, p, uint64(math.MaxUint64>>1))
	}
	owner := map[int]string{}
	for w := 0; w < words; w++ {
		for b := uint(0); b < 64; b++ {
			ws := make([]uint64, words)
			ws[w] = 1 << b
			got, _ := run(ws)
			if len(got) > 1 {
				return mc.Failf(0, "buffer of %d: bit %d of random word %d decides the survival of several elements %v: coins are shared", cc.N, b, w, got)
			}
			if len(got) == 1 {
				if prev, dup := owner[got[0]]; dup {
					return mc.Failf(0, "buffer of %d: element %d survives on bit %s and on bit %d of word %d", cc.N, got[0], prev, b, w)
				}
				owner[got[0]] = fmt.Sprintf("%d of word %d", b, w)
			}
		}
	}
	for v := 0; v < cc.N; v++ {
		if _, ok := owner[v]; !ok {
			return mc.Failf(0, "buffer of %d: element %d (visited %s) survives for no value of the random words: it has no coin and is always evicted", cc.N, v, cc.Order)
		}
	}
	return nil
}

// ---- large buffers: the deterministic part of the property ----
//
// For buffers beyond the exact analysis the clauses that do not depend on the
// coins are checked on long histories: exact regime below the buffer size
// (however often values repeat), Len <= size and Count = Len*2^k with k
// non-decreasing above it, and Reset restoring the exact regime - repeatedly,
// so that a counter that is reused many times is covered. With the hooks the
// random source is a fixed PCG stream (the same execution on every run); the
// invariants hold for every outcome of the coins, so any outcome is a fair one
// to test them on.

type largeCase struct {
	Size   int `json:"buffer_size"`
	Cycles int `json:"reset_cycles"`
}

func checkLarge(lc largeCase) *mc.Failure {
	var ctr *distinct.Counter[int]
	if mc.HooksEnabled {
		ctr = newCounter(lc.Size, rand.NewPCG(uint64(lc.Size), 0x9e3779b97f4a7c15))
	} else {
		ctr = distinct.NewCounter[int](lc.Size)
	}
	step := 0
	for cyc := 0; cyc < lc.Cycles; cyc++ {
		// exact regime: size-1 distinct values, repeats interleaved
		base := cyc * 10 * lc.Size
		for d := 1; d < lc.Size; d++ {
			for _, v := range []int{base + d, base + (d+1)/2, base + d} {
				step++
				ctr.Add(v)
				if ctr.Len() != d || ctr.Count() != uint64(d) {
					return mc.Failf(step, "buffer of %d, cycle %d: after %d distinct values (fewer than the buffer size) Len=%d Count=%d, want both %d", lc.Size, cyc, d, ctr.Len(), ctr.Count(), d)
				}
			}
		}
		if cyc%2 == 1 {
			// above the buffer size: the coin-independent invariants
			k := 0
			for i := 0; i < 4*lc.Size+7; i++ {
				step++
				ctr.Add(base + lc.Size + i)
				n, cnt := ctr.Len(), ctr.Count()
				if n > lc.Size {
					return mc.Failf(step, "buffer of %d: Len=%d exceeds the buffer size", lc.Size, n)
				}
				if n == 0 {
					if cnt != 0 {
						return mc.Failf(step, "buffer of %d: Len=0 but Count=%d", lc.Size, cnt)
					}
					continue
				}
				q := cnt / uint64(n)
				if cnt%uint64(n) != 0 || q&(q-1) != 0 {
					return mc.Failf(step, "buffer of %d: Count=%d is not Len=%d times a power of two", lc.Size, cnt, n)
				}
				if kk := bits.TrailingZeros64(q); kk < k {
					return mc.Failf(step, "buffer of %d: Count/Len went from 2^%d down to 2^%d without a Reset", lc.Size, k, kk)
				} else {
					k = kk
				}
			}
		}
		step++
		ctr.Reset()
		if ctr.Len() != 0 || ctr.Count() != 0 {
			return mc.Failf(step, "buffer of %d: after Reset Len=%d Count=%d", lc.Size, ctr.Len(), ctr.Count())
		}
	}
	ctr.Add(-1)
	if ctr.Len() != 1 || ctr.Count() != 1 {
		return mc.Failf(step+1, "buffer of %d: one Add after %d Resets gives Len=%d Count=%d, want 1 and 1", lc.Size, lc.Cycles, ctr.Len(), ctr.Count())
	}
	return nil
}

// ---- exact regime: every short history on a real counter ----
//
// The exact analysis above puts counters into states (buffer, threshold) with
// a hook; state an implementation keeps elsewhere (a memo of the last value, a
// run length) is invisible to it. Here every history of Add(0), Add(1), Add(2)
// and Reset up to a length bound runs on one real counter whose buffer is
// larger than the number of values, so that no random word can matter: Count
// and Len must equal the number of distinct values since the last Reset after
// every call.

type histCase struct {
	Size int   `json:"buffer_size"`
	Ops  []int `json:"ops"` // 0,1,2 = Add(value), 3 = Reset
}

func checkHist(h histCase) *mc.Failure {
	var ctr *distinct.Counter[int]
	if mc.HooksEnabled {
		ctr = newCounter(h.Size, rand.NewPCG(1, 2))
	} else {
		ctr = distinct.NewCounter[int](h.Size)
	}
	seen := map[int]bool{}
	for i, o := range h.Ops {
		if o == 3 {
			ctr.Reset()
			seen = map[int]bool{}
		} else {
			ctr.Add(o)
			seen[o] = true
		}
		if ctr.Len() != len(seen) || ctr.Count() != uint64(len(seen)) {
			return mc.Failf(i, "buffer of %d, history %v (3 = Reset): after call %d Len=%d Count=%d, want both %d (exact regime)", h.Size, h.Ops[:i+1], i, ctr.Len(), ctr.Count(), len(seen))
		}
	}
	return nil
}

// ---- stubborn coins ----
//
// Len <= size is stated without a probability. A pass in which every coin says
// "keep" leaves the buffer full and must be followed by another one, however
// often that happens (probability 2^-(size*passes), so the exact analysis prunes
// such branches long before 16 or 40 of them). Scripted words drive exactly that:
// K keep-everything passes, then one that drops everything - twice in a row.

type stubbornCase struct {
	Size   int `json:"buffer_size"`
	Passes int `json:"keep_everything_passes"`
}

func checkStubborn(sc stubbornCase) *mc.Failure {
	setOrder("sorted")
	src := &script{}
	ctr := newCounter(sc.Size, src)
	buf := make([]int, sc.Size-1)
	for i := range buf {
		buf[i] = i
	}
	setState(ctr, buf, math.MaxUint64)
	keep := make([]uint64, sc.Passes, sc.Passes+2)
	for i := range keep {
		keep[i] = math.MaxUint64
	}
	for round, v := range []int{sc.Size - 1, sc.Size, sc.Size + 1} {
		words := append([]uint64{}, keep...)
		if _, p := getState(ctr); p < math.MaxUint64 {
			words = append([]uint64{0}, words...) // the admission roll: below any threshold
		}
		src.words, src.used, src.short = append(words, 0, 0), 0, false
		ctr.Add(v)
		if n := ctr.Len(); n > sc.Size {
			return mc.Failf(round, "buffer of %d: after Add number %d, whose first %d passes kept every element, Len=%d exceeds the buffer size", sc.Size, round+1, sc.Passes, n)
		}
		if n, cnt := ctr.Len(), ctr.Count(); n > 0 && (cnt%uint64(n) != 0 || (cnt/uint64(n))&(cnt/uint64(n)-1) != 0) {
			return mc.Failf(round, "buffer of %d: Count=%d is not Len=%d times a power of two", sc.Size, cnt, n)
		}
	}
	return nil
}

// ---- statistical complement ----
//
// When the harness cannot own the randomness of a configuration (the code
// consumes random bits in a way the probes cannot partition), the exact
// analysis gives no verdict. The property itself is phrased statistically
// ("the mean of Count converges ... checked with a tolerance many standard
// errors wide"), so in that case - and only then - the check falls back on
// that formulation: many independent runs on repeated-value streams with a
// deterministic PRNG, mean against the true count with a tolerance of 8
// standard errors plus 0.2%. This is sampling, declared as such in the
// evidence; it never runs when the exact analysis applies.

type statCase struct {
	Size, Distinct, Repeats, Runs int
	Seed                          uint64
}

func runStat(sc statCase) *mc.Failure {
	type acc struct{ sum, sumsq float64 }
	workers := runtime.NumCPU()
	parts := make([]acc, workers)
	var bad atomic.Value
	mc.ParallelFor(workers, workers, func(w int) {
		src := rand.NewPCG(sc.Seed+uint64(w)*7919, 0x9e3779b97f4a7c15)
		for run := w; run < sc.Runs; run += workers {
			ctr := newCounter(sc.Size, src)
			lastK := 0
			for rep := 0; rep < sc.Repeats; rep++ {
				for v := 0; v < sc.Distinct; v++ {
					ctr.Add(v)
					if ctr.Len() > sc.Size {
						bad.Store(fmt.Sprintf("Len=%d exceeds the buffer size %d", ctr.Len(), sc.Size))
						return
					}
					if l := ctr.Len(); l > 0 {
						q := ctr.Count() / uint64(l)
						if ctr.Count()%uint64(l) != 0 || q&(q-1) != 0 || bits.TrailingZeros64(q) < lastK {
							bad.Store(fmt.Sprintf("Count=%d is not Len=%d times a non-decreasing power of two", ctr.Count(), l))
							return
						}
						lastK = bits.TrailingZeros64(q)
					}
				}
			}
			c := float64(ctr.Count())
			parts[w].sum += c
			parts[w].sumsq += c * c
		}
	})
	if b := bad.Load(); b != nil {
		return mc.Failf(0, "statistical complement (size %d): %s", sc.Size, b)
	}
	var sum, sumsq float64
	for _, p := range parts {
		sum += p.sum
		sumsq += p.sumsq
	}
	n := float64(sc.Runs)
	mean := sum / n
	sd := math.Sqrt(math.Max(sumsq/n-mean*mean, 0))
	se := sd / math.Sqrt(n)
	d := float64(sc.Distinct)
	if math.Abs(mean-d) > 8*se+0.002*d {
		return mc.Failf(0, "statistical complement: buffer size %d, %d distinct values each added %d times, %d runs: mean Count = %.3f, true count %d (%.1f standard errors away)", sc.Size, sc.Distinct, sc.Repeats, sc.Runs, mean, sc.Distinct, (mean-d)/se)
	}
	return nil
}

func statisticalComplement(r *mc.Run) {
	var cases []statCase
	for _, size := range []int{4, 8, 16, 64} {
		cases = append(cases, statCase{Size: size, Distinct: 6 * size, Repeats: 3, Runs: mc.Pick(r, 60000, 400000), Seed: uint64(r.Seed) + uint64(size)})
	}
	for _, sc := range cases {
		if f := runStat(sc); f != nil {
			r.Violation(mc.Case{Harness: "cvm-statistical", Trace: mc.J(sc), Msg: f.Msg})
		}
	}
	r.Extra("statistical_complement", map[string]any{"ran": true, "cases": cases, "note": "sampling; used only because the exact analysis could not own the randomness of at least one configuration"})
}

func fallback(r *mc.Run) {
	// Without the seedable constructor only the clauses that do not depend on
	// the random outcomes are decided exhaustively: the exact regime.
	var n int64
	for size := 2; size <= 6; size++ {
		for _, s := range streams(size-1, 9) {
			c := distinct.NewCounter[int](size)
			seen := map[int]bool{}
			for i, v := range s {
				c.Add(v)
				seen[v] = true
				if c.Count() != uint64(len(seen)) || c.Len() != len(seen) {
					r.Violation(mc.Case{Harness: "cvm", Trace: mc.J(tcase{Cfg: cfg{Size: size}, Stream: s[:i+1]}), Msg: fmt.Sprintf("exact regime: Count=%d after %v", c.Count(), s[:i+1])})
					break
				}
			}
			n++
		}
	}
	r.AddEval(n, n, n, n)
	r.NotExhaustive("hooks unavailable: only the exact regime is enumerated; the clauses that depend on random outcomes are not decided")
}

// typedValues are the elements of the typed exact-regime streams: six values
// of different dynamic types that are pairwise distinct as interface values,
// among them the nil interface and a typed nil pointer.
func typedValues() []any {
	return []any{nil, 0, "", (*int)(nil), struct{}{}, 1}
}

// checkTyped feeds one stream to counters of three element types, all below
// their buffer size: Count must be the exact number of distinct values.
func checkTyped(seq []int) *mc.Failure {
	vals := typedValues()
	ptrs := make([]*int, len(vals)) // ptrs[0] is the nil pointer
	for i := 1; i < len(ptrs); i++ {
		ptrs[i] = new(int)
	}
	strs := []string{"", "a", "b", "ab", " ", "\x00"}
	ca, cp, cs := distinct.NewCounter[any](8), distinct.NewCounter[*int](8), distinct.NewCounter[string](8)
	seen := map[int]bool{}
	for i, v := range seq {
		ca.Add(vals[v])
		cp.Add(ptrs[v])
		cs.Add(strs[v])
		seen[v] = true
		want := uint64(len(seen))
		if ca.Count() != want || ca.Len() != len(seen) {
			return mc.Failf(i, "Counter[any] size 8: Count=%d Len=%d after values %v of %#v, want %d distinct", ca.Count(), ca.Len(), seq[:i+1], vals, want)
		}
		if cp.Count() != want || cp.Len() != len(seen) {
			return mc.Failf(i, "Counter[*int] size 8: Count=%d Len=%d after pointers %v (0 = nil), want %d distinct", cp.Count(), cp.Len(), seq[:i+1], want)
		}
		if cs.Count() != want || cs.Len() != len(seen) {
			return mc.Failf(i, "Counter[string] size 8: Count=%d Len=%d after strings %v of %q, want %d distinct", cs.Count(), cs.Len(), seq[:i+1], strs, want)
		}
	}
	return nil
}

// checkSeeds is a fixed execution, not an enumeration: the exact analysis
// replaces the random source and so cannot see where the real constructor gets
// its seed. Counters built by NewCounter must not replay one another's coins.
func checkSeeds() *mc.Failure {
	const k, n = 4, 2000
	var traj [k][]uint64
	for j := 0; j < k; j++ {
		c := distinct.NewCounter[int](4)
		for v := 0; v < n; v++ {
			c.Add(v)
			traj[j] = append(traj[j], c.Count())
		}
	}
	for a := 0; a < k; a++ {
		for b := a + 1; b < k; b++ {
			same := true
			for i := range traj[a] {
				if traj[a][i] != traj[b][i] {
					same = false
					break
				}
			}
			if same {
				return mc.Failf(0, "counters %d and %d from NewCounter went through identical Counts on all %d additions (final Count %d): their random sources are not independent, so repeated runs cannot average to the true count", a, b, n, traj[a][n-1])
			}
		}
	}
	return nil
}

func main() {
	mc.Main("C19", mc.Harness{
		Name: "cvm",
		Explore: func(r *mc.Run) {
			if !r.Hooks {
				fallback(r)
				return
			}
			if os.Getenv("VERIF_C19_ORDER") != "1" {
				// Without control over the order in which a halving pass visits the
				// buffer the outcome of a bit pattern is not a function of the
				// state, so exact propagation is impossible.
				fallback(r)
				r.NotExhaustive("the halving loop of distinct.go no longer has the form the driver transforms; order of the pass is uncontrolled")
				return
			}
			base := mc.Pick(r,
				[]cfg{{Size: 2, Values: 4, MaxLen: 7, MaxRepeat: 644}, {Size: 3, Values: 5, MaxLen: 6, MaxRepeat: 64}},
				[]cfg{{Size: 2, Values: 4, MaxLen: 10, MaxRepeat: 644}, {Size: 3, Values: 5, MaxLen: 9, MaxRepeat: 64}, {Size: 4, Values: 6, MaxLen: 8, MaxRepeat: 64}, {Size: 5, Values: 7, MaxLen: 8, MaxRepeat: 64}})
			var cfgs []cfg
			for _, b := range base {
				for _, o := range mc.Pick(r, []string{"sorted", "reverse"}, []string{"sorted", "reverse", "rotate", "evens-first"}) {
					b.Order = o
					cfgs = append(cfgs, b)
				}
			}
			var sum []map[string]any
			var nstreams, above int64
			anyGaveUp := false
			for i := range cfgs {
				c := &cfgs[i]
				e := newExplorer(c)
				// Expand the first three levels sequentially, then the subtrees in parallel.
				level := []*node{rootNode()}
				var ns, ab int64
				for d := 0; d < 3 && d < c.MaxLen; d++ {
					var next []*node
					for _, n := range level {
						for v := 0; v <= len(n.seen) && v < c.Values; v++ {
							nx, f := e.extend(n, v)
							ns++
							if isUnowned(f) {
								e.giveUp(r, f.Msg)
								continue
							}
							if f != nil {
								r.Violation(mc.Case{Harness: "cvm", Trace: mc.J(tcase{Cfg: *c, Stream: append(append([]int(nil), n.stream...), v)}), Msg: f.Msg, Step: f.Step})
								continue
							}
							if len(nx.seen) >= c.Size {
								ab++
							}
							next = append(next, nx)
						}
					}
					level = next
				}
				mc.ParallelFor(len(level), r.Workers, func(k int) { e.walk(r, level[k], &ns, &ab) })
				if r.NumViolations() == 0 {
					if rf := e.resetCheck(); rf != nil {
						r.Violation(mc.Case{Harness: "cvm-reset", Trace: mc.J(tcase{Cfg: *c, Buf: rf.st.buf, P: rf.st.p}), Msg: rf.f.Msg})
					}
				}
				nstreams += ns
				above += ab
				if e.gaveUp {
					anyGaveUp = true
				}
				sum = append(sum, map[string]any{"order": c.Order, "size": c.Size, "values": c.Values, "max_stream_len": c.MaxLen, "streams": ns,
					"reachable_states": len(e.states), "distinct_transitions": e.transitions, "threshold_halvings": e.evictions})
				r.AddEval(int64(len(e.states)), e.transitions, 0, 0)
			}
			r.AddEval(0, 0, nstreams, above)
			r.Extra("configurations", sum)
			var coins int64
			for _, n := range mc.Pick(r, []int{2, 3, 8, 63, 64, 65, 66, 128, 129}, []int{2, 3, 5, 8, 31, 32, 33, 63, 64, 65, 66, 100, 127, 128, 129, 130, 192, 193, 257}) {
				for _, o := range []string{"sorted", "reverse"} {
					cc := coinCase{n, o}
					if f := mc.GuardT("cvm-coins", cc, func() *mc.Failure { return checkCoins(cc) }); f != nil {
						r.Violation(mc.Case{Harness: "cvm-coins", Trace: mc.J(cc), Msg: f.Msg})
					}
					coins++
				}
			}
			var stubborn int64
			for _, size := range []int{2, 3, 4, 8, 33} {
				for _, k := range []int{1, 2, 7, 15, 16, 17, 31, 32, 33, 40} {
					if size*k > 62*4 && size > 8 {
						continue // the threshold cannot be halved more than 63 times
					}
					if k > 60 {
						continue
					}
					sc := stubbornCase{size, k}
					if f := mc.GuardT("cvm-stubborn", sc, func() *mc.Failure { return checkStubborn(sc) }); f != nil {
						r.Violation(mc.Case{Harness: "cvm-stubborn", Trace: mc.J(sc), Msg: f.Msg, Step: f.Step})
					}
					stubborn++
				}
			}
			r.Count("stubborn_coin_cases", stubborn)
			coins += stubborn
			r.AddEval(coins, coins, coins, coins)
			r.Count("one_coin_per_element_cases", coins-stubborn)
			if anyGaveUp || os.Getenv("VERIF_C19_FORCE_STAT") == "1" {
				statisticalComplement(r)
			}
			r.Rule("for every stream (up to value renaming) within the bounds, the exact distribution over (buffer, threshold) states is propagated using transitions obtained by running the real Add under every class of every random word; oracles: exact regime, Len <= size, Count = Len*2^k with k non-decreasing, per-transition martingale conditions, E[Count] = true distinct count, Reset from every reachable state; non-trivial = streams that reach the buffer size")
			r.Assume("the code uses a random word only through the comparison with the threshold (4 classes around p, exact weights) or through its low bits in a halving pass (all patterns of size+2 bits); a word being used inconsistently is reported")
			r.Assume("map iteration order in the halving pass is unspecified by the language: the driver rewrites that one loop header to visit the buffer in an order chosen by the harness, and the propagation is repeated for several orders")
			r.Assume("values are interchangeable (only tested for equality), so streams are enumerated up to renaming")
			r.Sample(tcase{Cfg: cfgs[0], Stream: []int{0, 1, 0, 2, 1, 3}})
		},
		Replay: func(c mc.Case) *mc.Failure {
			var t tcase
			if err := mc.Unmarshal(c.Trace, &t); err != nil {
				return mc.Failf(-1, "bad trace: %v", err)
			}
			if !mc.HooksEnabled {
				return nil
			}
			e := newExplorer(&t.Cfg)
			return e.checkStream(t.Stream)
		},
	}, mc.Harness{
		Name: "cvm-histories",
		Explore: func(r *mc.Run) {
			L := mc.Pick(r, 9, 11)
			seqs := mc.AllSeqs(4, L)
			mc.ParallelFor(len(seqs), r.Workers, func(i int) {
				if len(seqs[i]) < L && len(seqs[i]) > 3 {
					return // prefixes are checked on the way; only maximal histories (and the very short ones) run
				}
				for _, size := range []int{4, 9} {
					h := histCase{size, seqs[i]}
					if f := mc.GuardT("cvm-histories", h, func() *mc.Failure { return checkHist(h) }); f != nil {
						r.Violation(mc.Case{Harness: "cvm-histories", Trace: mc.J(h), Msg: f.Msg, Step: f.Step})
					}
				}
			})
			n := int64(len(seqs))
			r.AddEval(n, n, n, n)
			r.Rule(fmt.Sprintf("every history of Add(0), Add(1), Add(2), Reset of length %d on a real counter (no state hook) with buffers 4 and 9: exact Count and Len after every call", L))
			r.Sample(histCase{4, []int{0, 0, 0, 0, 0, 0, 3, 0}})
		},
		Replay: func(c mc.Case) *mc.Failure {
			var h histCase
			if err := mc.Unmarshal(c.Trace, &h); err != nil {
				return mc.Failf(-1, "bad trace: %v", err)
			}
			return checkHist(h)
		},
	}, mc.Harness{
		Name: "cvm-typed",
		Explore: func(r *mc.Run) {
			L := mc.Pick(r, 5, 6)
			seqs := mc.AllSeqs(len(typedValues()), L)
			var nontriv int64
			mc.ParallelFor(len(seqs), r.Workers, func(i int) {
				if f := mc.Guard(func() *mc.Failure { return checkTyped(seqs[i]) }); f != nil {
					r.Violation(mc.Case{Harness: "cvm-typed", Trace: mc.J(seqs[i]), Msg: f.Msg, Step: f.Step})
				}
				for _, v := range seqs[i] {
					if v == 0 {
						atomic.AddInt64(&nontriv, 1)
						break
					}
				}
			})
			n := int64(len(seqs))
			r.AddEval(n, n, n, nontriv)
			r.Rule(fmt.Sprintf("exact regime for other element types: every stream of length <= %d over the values nil, 0, \"\", a nil *int, struct{}{} and 1 in a Counter[any] of size 8 (the same streams of pointers in a Counter[*int], of strings in a Counter[string]): Count and Len equal the number of distinct values after every Add; non-trivial = streams containing the nil interface", L))
			r.Sample([]int{0, 1, 0})
		},
		Replay: func(c mc.Case) *mc.Failure {
			var seq []int
			if err := mc.Unmarshal(c.Trace, &seq); err != nil {
				return mc.Failf(-1, "bad trace: %v", err)
			}
			return mc.Guard(func() *mc.Failure { return checkTyped(seq) })
		},
	}, mc.Harness{
		Name: "cvm-seeds",
		Explore: func(r *mc.Run) {
			if f := checkSeeds(); f != nil {
				r.Violation(mc.Case{Harness: "cvm-seeds", Trace: mc.J("seeds"), Msg: f.Msg})
			}
			r.AddEval(1, 1, 1, 1)
			r.Rule("precondition of the statistical clause (independent seeds), one fixed execution: four counters of size 4 from the real NewCounter are fed the same 2,000 distinct values; no two may go through the same sequence of Counts (with independent seeds two trajectories coincide with probability below 2^-60; a seed shared by the process makes them coincide always)")
		},
		Replay: func(mc.Case) *mc.Failure { return checkSeeds() },
	}, mc.Harness{
		Name: "cvm-large", HangLimit: 20 * time.Minute,
		Explore: func(r *mc.Run) {
			var cases []largeCase
			for _, n := range mc.Pick(r, []int{2, 3, 4, 5, 8, 16, 17, 63, 64, 65, 127, 128, 129, 130, 131, 256, 257, 1000}, []int{2, 3, 4, 5, 8, 16, 17, 63, 64, 65, 127, 128, 129, 130, 131, 256, 257, 1000, 4096, 4097, 20000}) {
				cases = append(cases, largeCase{n, 4})
			}
			for _, n := range []int{2, 3, 7, 40} {
				cases = append(cases, largeCase{n, 2*n + 6}) // a counter reused more often than its size
			}
			mc.ParallelFor(len(cases), r.Workers, func(i int) {
				lc := cases[i]
				if f := mc.GuardTL("cvm-large", lc, 20*time.Minute, func() *mc.Failure { return checkLarge(lc) }); f != nil {
					r.Violation(mc.Case{Harness: "cvm-large", Trace: mc.J(lc), Msg: f.Msg, Step: f.Step})
				}
			})
			n := int64(len(cases))
			r.AddEval(n, n, n, n)
			r.Rule("buffers of 2...1000/20000: exact regime with interleaved repeats up to size-1 distinct values, the coin-independent invariants on 4*size further values, Reset, four cycles (and 2*size+6 cycles for small buffers); fixed random stream")
			r.Sample(largeCase{130, 4})
		},
		Replay: func(c mc.Case) *mc.Failure {
			var lc largeCase
			if err := mc.Unmarshal(c.Trace, &lc); err != nil {
				return mc.Failf(-1, "bad trace: %v", err)
			}
			return checkLarge(lc)
		},
	}, mc.Harness{
		Name:    "cvm-stubborn",
		Explore: func(r *mc.Run) {},
		Replay: func(c mc.Case) *mc.Failure {
			var sc stubbornCase
			if err := mc.Unmarshal(c.Trace, &sc); err != nil {
				return mc.Failf(-1, "bad trace: %v", err)
			}
			if !mc.HooksEnabled || os.Getenv("VERIF_C19_ORDER") != "1" {
				return nil
			}
			return checkStubborn(sc)
		},
	}, mc.Harness{
		Name:    "cvm-coins",
		Explore: func(r *mc.Run) {},
		Replay: func(c mc.Case) *mc.Failure {
			var cc coinCase
			if err := mc.Unmarshal(c.Trace, &cc); err != nil {
				return mc.Failf(-1, "bad trace: %v", err)
			}
			if !mc.HooksEnabled || os.Getenv("VERIF_C19_ORDER") != "1" {
				return nil
			}
			return checkCoins(cc)
		},
	}, mc.Harness{
		Name:    "cvm-statistical",
		Explore: func(r *mc.Run) {},
		Replay: func(c mc.Case) *mc.Failure {
			var sc statCase
			if err := mc.Unmarshal(c.Trace, &sc); err != nil {
				return mc.Failf(-1, "bad trace: %v", err)
			}
			if !mc.HooksEnabled {
				return nil
			}
			return runStat(sc)
		},
	}, mc.Harness{
		Name:    "cvm-reset",
		Explore: func(r *mc.Run) {},
		Replay: func(c mc.Case) *mc.Failure {
			var t tcase
			if err := mc.Unmarshal(c.Trace, &t); err != nil {
				return mc.Failf(-1, "bad trace: %v", err)
			}
			if !mc.HooksEnabled {
				return nil
			}
			setOrder(t.Cfg.Order)
			return resetFrom(t.Cfg.Size, state{t.Buf, t.P})
		},
	})
}
