package streeh

import (
	"fmt"
	"math/bits"
	"sync"
	"sync/atomic"

	"verif/mc"

	"github.com/creachadair/mds/stree"
)

// BFSCfg is the configuration of one per-beta search.
type BFSCfg struct {
	Beta  int  `json:"beta"`
	Keys  int  `json:"keys"`
	Tags  int  `json:"tags"`
	Depth bool `json:"depth_oracle"`
	Set   bool `json:"set_oracle"`
}

func makeBFS(name string, c *BFSCfg, st *Stats, hooks bool, depth int) *mc.BFS[Op] {
	mode := Mode{Set: c.Set, Depth: c.Depth}
	return &mc.BFS[Op]{
		Name: name, Config: c, NRoots: 1 << c.Keys, Merge: hooks, MaxDepth: depth, Workers: 1,
		// Roots: the empty tree and New(keys...) for every non-empty subset of
		// keys, given in descending (unsorted) order.
		Root: func(i int) (mc.Inst[Op], *mc.Failure) {
			var init []Elem
			for k := c.Keys - 1; k >= 0; k-- {
				if i&(1<<k) != 0 {
					init = append(init, Elem{K: k, T: k % c.Tags})
				}
			}
			s := New(c.Beta, c.Keys, c.Tags, mode, st, init...)
			if mode.Set {
				if f := s.Observe(); f != nil {
					return nil, f
				}
			}
			if mode.Depth {
				if f := s.CheckDepth(); f != nil {
					return nil, f
				}
			}
			return s, nil
		},
	}
}

type job struct{ beta, keys, tags int }

// BFSHarness is the E1 harness: one search per selected beta.
func BFSHarness(mode Mode) mc.Harness {
	name := "tree-bfs"
	return mc.Harness{
		Name: name,
		Explore: func(r *mc.Run) {
			var jobs []job
			seen := map[job]bool{}
			add := func(j job) {
				if mode.Depth && !mode.Set && j.beta == 1000 {
					return // the height bound is stated for beta < 1000
				}
				if !seen[j] {
					seen[j] = true
					jobs = append(jobs, j)
				}
			}
			switch {
			case !r.Hooks:
				for b := 0; b <= 1000; b += 125 {
					add(job{b, 3, 2})
				}
			case r.Quick():
				for _, b := range BetaClasses(4) {
					add(job{b, 4, 2})
				}
				for b := 0; b <= 1000; b += 50 {
					add(job{b, 4, 2})
				}
				for _, b := range []int{0, 250, 500, 750, 999, 1000} {
					add(job{b, 5, 2})
					add(job{b, 6, 1})
				}
				// a node deeper than the limit of the shrunken tree needs 7 keys at
				// the default balance (limit(7)=4, limit(6)=3)
				add(job{250, 7, 1})
				add(job{500, 7, 1})
			default:
				for b := 0; b <= 1000; b++ {
					add(job{b, 4, 2})
				}
				for _, b := range BetaClasses(5) {
					add(job{b, 5, 2})
				}
				for b := 0; b <= 1000; b += 50 {
					add(job{b, 6, 2})
					add(job{b, 8, 1})
				}
				add(job{999, 6, 2})
				add(job{999, 8, 1})
			}
			var mu sync.Mutex
			var total Stats
			total.MinSlack = 1 << 30
			perBeta := map[string]int64{}
			mc.ParallelFor(len(jobs), r.Workers, func(i int) {
				j := jobs[i]
				if r.Expired() {
					r.NotExhaustive(fmt.Sprintf("budget reached before beta=%d keys=%d", j.beta, j.keys))
					return
				}
				st := Stats{MinSlack: 1 << 30}
				depth := 0
				if !r.Hooks {
					depth = mc.Pick(r, 5, 6)
				}
				res := makeBFS(name, &BFSCfg{j.beta, j.keys, j.tags, mode.Depth, mode.Set}, &st, r.Hooks, depth).Run(r)
				mu.Lock()
				total.TwoChildRemovals += st.TwoChildRemovals
				total.DeleteRebuilds += st.DeleteRebuilds
				total.MaxSlackZero += st.MaxSlackZero
				if st.MinSlack < total.MinSlack {
					total.MinSlack = st.MinSlack
				}
				if j.beta%250 == 0 {
					perBeta[fmt.Sprintf("beta=%d keys=%d tags=%d", j.beta, j.keys, j.tags)] = res.States
				}
				mu.Unlock()
			})
			if r.Hooks && mode.Set {
				// every history to a small depth without merging (hidden state no key shows)
				d := mc.Pick(r, 4, 5)
				var flat int64
				fb := []int{0, 250, 1000}
				mc.ParallelFor(len(fb), r.Workers, func(i int) {
					st := Stats{MinSlack: 1 << 30}
					res := makeBFS(name, &BFSCfg{fb[i], 3, 1, mode.Depth, mode.Set}, &st, false, d).Run(r)
					atomic.AddInt64(&flat, res.States)
				})
				r.Bound("unmerged_configuration", fmt.Sprintf("3 keys at beta 0, 250, 1000: every history up to depth %d without state merging: %d histories", d, flat))
			}
			r.Extra("bfs_states_per_selected_search", perBeta)
			r.Bound("betas", mc.Pick(r,
				"4 tagged keys: one representative of every beta class (depth-limit/threshold signature, see BetaClasses) plus multiples of 50; 5 tagged and 6 untagged keys at 0,250,500,750,999,1000; 7 untagged keys at 250 and 500",
				"4 tagged keys: every beta 0..1000; 5 tagged keys: every class representative; 6 tagged and 8 untagged keys: multiples of 50 and 999"))
			r.Bound("searches", len(jobs))
			r.Count("two_child_removals", total.TwoChildRemovals)
			r.Count("delete_side_rebuilds", total.DeleteRebuilds)
			if mode.Depth {
				r.Count("states_at_exactly_the_allowed_depth", total.MaxSlackZero)
				r.Bound("min_slack_allowed_minus_actual_depth", total.MinSlack)
			}
			r.AddEval(0, 0, 0, total.TwoChildRemovals+total.DeleteRebuilds)
			r.Rule("per beta: BFS to closure over Add/Replace/Remove/Clear on tagged keys from the empty tree and from New(subset) roots; states merged by (pre-order shape with tags, hidden max[, P]); non-trivial = two-child removals and delete-side rebuilds")
			r.Assume("comparator is a total order on keys returning 3*(a-b) (the documented contract is about the sign only)")
			r.Sample(map[string]any{"beta": 250, "ops": []string{"add(2/0)", "add(1/0)", "add(3/1)", "replace(3/0)", "remove(2)"}})
		},
		Replay: func(c mc.Case) *mc.Failure {
			var cf BFSCfg
			if err := mc.Unmarshal(c.Config, &cf); err != nil {
				return mc.Failf(-1, "bad config: %v", err)
			}
			var st Stats
			return makeBFS(name, &cf, &st, mc.HooksEnabled, 0).Replay(c)
		},
	}
}

// LongHarness is the E2 harness: long adversarial histories with bounded
// deviations.
func LongHarness(mode Mode) mc.Harness {
	name := "tree-long"
	return mc.Harness{
		Name: name,
		Explore: func(r *mc.Run) {
			type fam struct {
				cfg LongCfg
				dev int
			}
			var fams []fam
			betas := mc.Pick(r, []int{0, 250, 500, 700, 850, 950}, []int{0, 1, 50, 100, 250, 333, 500, 700, 850, 900, 950, 990, 999, 1000})
			pairs := mc.Pick(r,
				[][2]string{{"asc", "asc"}, {"desc", "zigzag"}, {"zigzag", "desc"}, {"inside", "inside"}},
				[][2]string{{"asc", "asc"}, {"asc", "desc"}, {"desc", "asc"}, {"desc", "zigzag"}, {"zigzag", "desc"}, {"zigzag", "inside"}, {"inside", "asc"}, {"inside", "inside"}})
			for _, b := range betas {
				if mode.Depth && !mode.Set && b == 1000 {
					continue
				}
				for _, p := range pairs {
					n := mc.Pick(r, 24, 40)
					fams = append(fams, fam{LongCfg{Beta: b, N: n, Fill: p[0], Drain: p[1], Depth: mode.Depth, Set: mode.Set}, mc.Pick(r, 1, 1)})
					// Long default histories reach the rebuild paths of loose betas.
					big := mc.Pick(r, 120, 400)
					if b >= 990 {
						big = mc.Pick(r, 400, 1600)
					}
					fams = append(fams, fam{LongCfg{Beta: b, N: big, Fill: p[0], Drain: p[1], Depth: mode.Depth, Set: mode.Set}, 0})
				}
				if !r.Quick() {
					fams = append(fams, fam{LongCfg{Beta: b, N: 14, Fill: "asc", Drain: "asc", Depth: mode.Depth, Set: mode.Set}, 2},
						fam{LongCfg{Beta: b, N: 14, Fill: "zigzag", Drain: "inside", Depth: mode.Depth, Set: mode.Set}, 2})
				}
			}
			// Deep default histories (no deviation): strict betas need several
			// hundred keys before a wrong scapegoat choice shows, betas close to
			// 1000 need about 1/(1-alpha) keys before the bound binds at all.
			deepBetas := mc.Pick(r, []int{0, 1, 3, 10, 30, 100, 981, 985, 990}, []int{0, 1, 2, 3, 5, 10, 20, 40, 60, 100, 155, 970, 981, 985, 990, 995})
			for _, b := range deepBetas {
				for _, p := range [][2]string{{"asc", "asc"}, {"desc", "desc"}, {"zigzag", "inside"}, {"inside", "zigzag"}} {
					n := mc.Pick(r, 1100, 3000)
					if b >= 970 {
						n = mc.Pick(r, 1700, 3000)
					}
					fams = append(fams, fam{LongCfg{Beta: b, N: n, Fill: p[0], Drain: p[1], Depth: mode.Depth, Set: mode.Set}, 0})
				}
			}
			if !r.Quick() && mode.Depth {
				fams = append(fams, fam{LongCfg{Beta: 999, N: 22000, Fill: "asc", Drain: "asc", Depth: true}, 0},
					fam{LongCfg{Beta: 999, N: 22000, Fill: "desc", Drain: "desc", Depth: true}, 0})
			}
			var execs, steps int64
			var byDev [4]int64
			minSlack := int64(1 << 30)
			var mu sync.Mutex
			mc.ParallelFor(len(fams), r.Workers, func(i int) {
				f := fams[i]
				st := &LongStats{MinSlack: 1 << 30}
				d := &mc.DFS{Name: name, Config: f.cfg, MaxDev: f.dev, Workers: 1, Body: LongBody(f.cfg, st)}
				res := d.Run(r)
				atomic.AddInt64(&execs, res.Executions)
				mu.Lock()
				steps += st.Steps
				for k, n := range res.ByDevs {
					if k < len(byDev) {
						byDev[k] += n
					}
				}
				if st.MinSlack < minSlack {
					minSlack = st.MinSlack
				}
				mu.Unlock()
			})
			r.AddEval(execs, steps, execs, execs-byDev[0])
			r.Bound("betas", betas)
			r.Bound("fill_drain_orders", pairs)
			r.Bound("families", len(fams))
			r.Bound("deep_histories", fmt.Sprintf("betas %v, N=%s, four fill/drain orders, no deviation", deepBetas, mc.Pick(r, "1100 (1700 for beta >= 970)", "3000")))
			r.Bound("executions_by_deviations", byDev[:])
			if mode.Depth {
				r.Bound("min_slack_allowed_minus_actual_depth", minSlack)
			}
			r.Rule("choice-tree DFS: default history = fill N keys in one order, drain in another, refill; at every step one of 12 menu operations (insert around min/median/max, remove min/max/median/root, Replace, continue on a Clone, re-Add with another tag) may replace the default step; all executions with at most d deviations; oracle after every step; non-trivial = executions with at least one deviation")
			r.Sample(map[string]any{"beta": 500, "n": 24, "fill": "zigzag", "drain": "desc", "deviations": []mc.Dev{{Pos: 17, Alt: 9}}})
		},
		Replay: func(c mc.Case) *mc.Failure {
			var cf LongCfg
			if err := mc.Unmarshal(c.Config, &cf); err != nil {
				return mc.Failf(-1, "bad config: %v", err)
			}
			d := &mc.DFS{Name: name, Config: cf, Body: LongBody(cf, nil)}
			return d.ReplayDevs(c)
		},
	}
}

// CursorLongHarness (C03): Tree.Cursor, Next, Prev, HasNext, HasPrev on the
// trees that operation histories actually produce at every balance factor
// (shapes with stale size/limit bookkeeping after removals, rebuilt subtrees),
// complementing the exhaustive shape enumeration that uses insert-only trees.
func CursorLongHarness() mc.Harness {
	name := "cursor-long"
	return mc.Harness{
		Name: name,
		Explore: func(r *mc.Run) {
			var cfgs []LongCfg
			var devs []int
			for _, b := range mc.Pick(r, []int{0, 100, 250, 500, 800, 1000}, []int{0, 50, 100, 250, 333, 500, 700, 850, 950, 999, 1000}) {
				for _, p := range [][2]string{{"asc", "asc"}, {"desc", "zigzag"}, {"zigzag", "desc"}, {"inside", "inside"}, {"asc", "desc"}} {
					cfgs = append(cfgs, LongCfg{Beta: b, N: mc.Pick(r, 16, 24), Fill: p[0], Drain: p[1], Cursor: true})
					devs = append(devs, 1)
					cfgs = append(cfgs, LongCfg{Beta: b, N: mc.Pick(r, 140, 300), Fill: p[0], Drain: p[1], Cursor: true})
					devs = append(devs, 0)
				}
			}
			var execs, steps int64
			mc.ParallelFor(len(cfgs), r.Workers, func(i int) {
				st := &LongStats{MinSlack: 1 << 30}
				res := (&mc.DFS{Name: name, Config: cfgs[i], MaxDev: devs[i], Workers: 1, Body: LongBody(cfgs[i], st)}).Run(r)
				atomic.AddInt64(&execs, res.Executions)
				atomic.AddInt64(&steps, st.Steps)
			})
			r.AddEval(execs, steps, execs, execs-int64(len(cfgs)))
			r.Bound("families", len(cfgs))
			r.Rule("the long-history choice tree of lib/streeh (fill, drain, refill; every single deviation at N=16/24, none at N=140/300: spines of more than 128 nodes at beta=1000) with the cursor oracle after every step: Cursor(k) for every present key and for absent keys, HasNext/HasPrev, Next steps, full Next/Prev walks from both ends and the middle; non-trivial = executions with a deviation")
			r.Sample(map[string]any{"beta": 250, "history": "Add 1..13 ascending, Remove 1,2,3,4,5,6,8, then Cursor(13)"})
		},
		Replay: func(c mc.Case) *mc.Failure {
			var cf LongCfg
			if err := mc.Unmarshal(c.Config, &cf); err != nil {
				return mc.Failf(-1, "bad config: %v", err)
			}
			return (&mc.DFS{Name: name, Config: cf, Body: LongBody(cf, nil)}).ReplayDevs(c)
		},
	}
}

// ---- bulk construction: stree.New on every short key sequence (E4) ----

// NewTrace is one bulk-construction case.
type NewTrace struct {
	Beta int    `json:"beta"`
	Keys []Elem `json:"keys"`
}

func height(t *stree.Tree[Elem]) int { _, d := Shape(t); return d }

func checkNew(tr NewTrace, mode Mode) *mc.Failure {
	s := New(tr.Beta, 0, 1, mode, nil, tr.Keys...)
	distinct := map[int][]int{}
	for _, e := range tr.Keys {
		distinct[e.K] = append(distinct[e.K], e.T)
	}
	if mode.Set {
		if s.T.Len() != len(distinct) {
			return mc.Failf(0, "New(%v): Len=%d want %d", tr.Keys, s.T.Len(), len(distinct))
		}
		prev, n := -1<<30, 0
		var bad *mc.Failure
		s.T.Inorder(func(e Elem) bool {
			n++
			if e.K <= prev {
				bad = mc.Failf(0, "New(%v): Inorder not strictly ascending at %v", tr.Keys, e)
				return false
			}
			prev = e.K
			ok := false
			for _, t := range distinct[e.K] {
				ok = ok || t == e.T
			}
			if !ok {
				bad = mc.Failf(0, "New(%v): stored %v is none of the given equivalents", tr.Keys, e)
				return false
			}
			return true
		})
		if bad != nil {
			return bad
		}
		if n != len(distinct) {
			return mc.Failf(0, "New(%v): Inorder yields %d keys, want %d", tr.Keys, n, len(distinct))
		}
		for k := range distinct {
			if g, ok := s.T.Get(Elem{K: k}); !ok || g.K != k {
				return mc.Failf(0, "New(%v): Get(%d)=(%v,%v)", tr.Keys, k, g, ok)
			}
		}
	}
	if mode.Depth && len(distinct) > 0 {
		want := bits.Len(uint(len(distinct))) - 1
		if h := height(s.T); h != want {
			return mc.Failf(0, "New(beta=%d) from %d distinct keys has height %d, want floor(log2 n)=%d; keys %v", tr.Beta, len(distinct), h, want, tr.Keys)
		}
	}
	return nil
}

// NewHarness enumerates bulk constructions.
func NewHarness(mode Mode) mc.Harness {
	name := "tree-new"
	return mc.Harness{
		Name: name,
		Explore: func(r *mc.Run) {
			// All sequences over 4 keys x 2 tags up to length L.
			L := mc.Pick(r, 5, 6)
			alphabet := []Elem{}
			for k := 0; k < 4; k++ {
				for t := 0; t < 2; t++ {
					alphabet = append(alphabet, Elem{k, t})
				}
			}
			var seqs [][]Elem
			var rec func(cur []Elem)
			rec = func(cur []Elem) {
				seqs = append(seqs, append([]Elem(nil), cur...))
				if len(cur) == L {
					return
				}
				for _, e := range alphabet {
					rec(append(cur, e))
				}
			}
			rec(nil)
			betas := mc.Pick(r, []int{0, 250, 1000}, []int{0, 155, 250, 260, 500, 750, 999, 1000})
			var evals, nontriv int64
			mc.ParallelFor(len(seqs), r.Workers, func(i int) {
				dup := false
				seen := map[int]bool{}
				for _, e := range seqs[i] {
					if seen[e.K] {
						dup = true
					}
					seen[e.K] = true
				}
				for _, b := range betas {
					tr := NewTrace{Beta: b, Keys: seqs[i]}
					if f := checkNew(tr, mode); f != nil {
						r.Violation(mc.Case{Harness: name, Trace: mc.J(tr), Msg: f.Msg, Step: 0})
					}
					atomic.AddInt64(&evals, 1)
					if dup {
						atomic.AddInt64(&nontriv, 1)
					}
				}
			})
			// Sizes: n distinct keys for every n up to the bound, in three orders.
			maxN := mc.Pick(r, 128, 1024)
			var sizes int64
			for n := 1; n <= maxN; n++ {
				for _, ord := range []string{"asc", "desc", "zigzag"} {
					var ks []Elem
					for _, i := range order(ord, n) {
						ks = append(ks, Elem{K: i})
					}
					for _, b := range []int{0, 250, 1000} {
						tr := NewTrace{Beta: b, Keys: ks}
						if f := checkNew(tr, mode); f != nil {
							f.Msg = fmt.Sprintf("n=%d order=%s: %.300s", n, ord, f.Msg)
							r.Violation(mc.Case{Harness: name, Trace: mc.J(tr), Msg: f.Msg, Step: 0})
						}
						sizes++
					}
				}
			}
			// All permutations (with one duplicated key) of up to 6 distinct keys.
			var perms int64
			var permute func(cur []Elem, used int, n int)
			permute = func(cur []Elem, used, n int) {
				if len(cur) == n {
					for _, b := range []int{0, 250, 1000} {
						tr := NewTrace{Beta: b, Keys: append(append([]Elem(nil), cur...), Elem{K: cur[0].K, T: 1})}
						if f := checkNew(tr, mode); f != nil {
							r.Violation(mc.Case{Harness: name, Trace: mc.J(tr), Msg: f.Msg, Step: 0})
						}
						perms++
					}
					return
				}
				for k := 0; k < n; k++ {
					if used&(1<<k) == 0 {
						permute(append(cur, Elem{K: k}), used|1<<k, n)
					}
				}
			}
			for n := 1; n <= 6; n++ {
				permute(nil, 0, n)
			}
			r.AddEval(int64(len(seqs))+sizes/3+perms/3, evals+sizes+perms, evals+sizes+perms, nontriv+perms)
			r.Bound("sequences", fmt.Sprintf("all %d sequences over 4 keys x 2 tags up to length %d, at betas %v", len(seqs), L, betas))
			r.Bound("sizes", fmt.Sprintf("n distinct keys for every n <= %d in ascending, descending and zig-zag order", maxN))
			r.Bound("permutations", "all permutations of up to 6 distinct keys plus a duplicate of the first")
			r.Rule("stree.New on every enumerated key sequence; non-trivial = sequences with comparator-equivalent duplicates")
			r.Sample(NewTrace{Beta: 250, Keys: []Elem{{2, 1}, {0, 0}, {2, 0}, {1, 1}}})
		},
		Replay: func(c mc.Case) *mc.Failure {
			var tr NewTrace
			if err := mc.Unmarshal(c.Trace, &tr); err != nil {
				return mc.Failf(-1, "bad trace: %v", err)
			}
			return checkNew(tr, mode)
		},
	}
}
