//go:build verif

package main

import (
	"verif/mc"

	"github.com/creachadair/mds/queue"
)

func init() { mc.HooksEnabled = true }

func fields(q *queue.Queue[int]) (head, n, length, capacity int) { return queue.VerifFields(q) }
func poison(q *queue.Queue[int], v int)                          { queue.VerifPoison(q, v) }
