#!/usr/bin/env python3
"""Turns seeded/MATRIX.txt into the markdown table of DESIGN.md section 11
(replacing the block between the SEED_MATRIX markers)."""
import json, os, re

VERIF = os.path.dirname(os.path.dirname(os.path.abspath(__file__)))
rows = {}
for line in open(os.path.join(VERIF, "seeded", "MATRIX.txt")):
    m = re.match(r"RUN(\[thorough\])?: seed=(\S+) check=(\S+) exit=(\d+) violations_lines=(\d+) time=(\d+)s :: ?(.*)", line)
    if not m:
        continue
    tier, seed, chk, ex, nv, t, msg = m.groups()
    if tier:
        # a thorough-tier run only adds information where the quick tier was silent
        old = rows.get(seed, {}).get(chk)
        if old and old[0] == 1:
            continue
        rows.setdefault(seed, {})[chk] = (int(ex), t + "s, thorough tier only", msg.strip())
        continue
    rows.setdefault(seed, {})[chk] = (int(ex), t + "s", msg.strip())

out = ["| seeded change | breaks | needs | reported by (quick tier, seconds) | silent (property not broken) | first report |", "|---|---|---|---|---|---|"]
missed = []
for seed in sorted(rows):
    meta = {}
    try:
        meta = json.load(open(os.path.join(VERIF, "seeded", seed, "meta.json")))
    except Exception:
        pass
    prop = meta.get("property", seed[:3])
    det = [f"{c} ({t})" for c, (ex, t, _) in sorted(rows[seed].items()) if ex == 1]
    sil = [c for c, (ex, t, _) in sorted(rows[seed].items()) if ex == 0]
    bad = [c for c, (ex, t, _) in sorted(rows[seed].items()) if ex not in (0, 1)]
    own = rows[seed].get(prop)
    if not own or own[0] != 1:
        missed.append(seed)
    msg = ""
    if own:
        msg = own[2].replace("violation: ", "")
        msg = re.sub(r"\s+", " ", msg)[:110].replace("|", "\\|")
    needs = meta.get("needs_to_manifest", "")[:120].replace("|", "\\|")
    out.append(f"| {seed} | {prop} | {needs} | {', '.join(det) or '–'} | {', '.join(sil + ['ERR:' + b for b in bad]) or '–'} | {msg} |")

summary = f"{len(rows)} seeded changes; {len(rows) - len(missed)} reported by the check of the property they break"
if missed:
    summary += "; NOT reported by their own property's check: " + ", ".join(missed)
block = "<!-- SEED_MATRIX_BEGIN -->\n" + summary + ".\n\n" + "\n".join(out) + "\n<!-- SEED_MATRIX_END -->"

p = os.path.join(VERIF, "DESIGN.md")
s = open(p).read()
if "SEED_MATRIX_PLACEHOLDER" in s:
    s = s.replace("SEED_MATRIX_PLACEHOLDER", block)
else:
    s = re.sub(r"<!-- SEED_MATRIX_BEGIN -->.*?<!-- SEED_MATRIX_END -->", lambda m: block, s, flags=re.S)
open(p, "w").write(s)
print(summary)
