package mc

import (
	"fmt"
	"reflect"
	"strings"
)

// Fingerprint summarises the fields of the struct that ptr points to, shallowly
// and without hooks: scalars by value, funcs/pointers/maps/slices/interfaces
// by nil-ness (interfaces also by dynamic type), nested structs recursively.
// It is appended to state keys so that hidden state the harness does not know
// about (a cached flag, a field added by a refactor) keeps two states apart;
// a finer key is always sound. Fields named in skip are left out (counters
// that only grow would keep a search from closing).
func Fingerprint(ptr any, skip ...string) string {
	v := reflect.ValueOf(ptr)
	for v.Kind() == reflect.Pointer || v.Kind() == reflect.Interface {
		if v.IsNil() {
			return "nil"
		}
		v = v.Elem()
	}
	var sb strings.Builder
	fpValue(&sb, v, skip, 0)
	return sb.String()
}

func fpValue(sb *strings.Builder, v reflect.Value, skip []string, depth int) {
	switch v.Kind() {
	case reflect.Bool:
		fmt.Fprintf(sb, "%v", v.Bool())
	case reflect.Int, reflect.Int8, reflect.Int16, reflect.Int32, reflect.Int64:
		fmt.Fprintf(sb, "%d", v.Int())
	case reflect.Uint, reflect.Uint8, reflect.Uint16, reflect.Uint32, reflect.Uint64, reflect.Uintptr:
		fmt.Fprintf(sb, "%d", v.Uint())
	case reflect.Float32, reflect.Float64:
		fmt.Fprintf(sb, "%v", v.Float())
	case reflect.String:
		fmt.Fprintf(sb, "%q", v.String())
	case reflect.Func, reflect.Pointer, reflect.Map, reflect.Slice, reflect.Chan, reflect.UnsafePointer:
		if v.IsNil() {
			sb.WriteString("nil")
		} else {
			sb.WriteString("set")
		}
	case reflect.Interface:
		if v.IsNil() {
			sb.WriteString("nil")
		} else {
			sb.WriteString(v.Elem().Type().String())
		}
	case reflect.Struct:
		if depth > 3 {
			sb.WriteString("...")
			return
		}
		sb.WriteByte('{')
		t := v.Type()
	fields:
		for i := 0; i < v.NumField(); i++ {
			for _, s := range skip {
				if t.Field(i).Name == s {
					continue fields
				}
			}
			sb.WriteString(t.Field(i).Name)
			sb.WriteByte(':')
			fpValue(sb, v.Field(i), skip, depth+1)
			sb.WriteByte(' ')
		}
		sb.WriteByte('}')
	case reflect.Array:
		fmt.Fprintf(sb, "[%d]", v.Len())
	default:
		sb.WriteString(v.Kind().String())
	}
}
